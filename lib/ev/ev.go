// Package ev is the shared reporting layer of every check: evidence files,
// VIOLATION / KNOWN-FINDING lines, replay artefacts and exit codes.
package ev

import (
	"bytes"
	"encoding/json"
	"fmt"
	"os"
	"path/filepath"
	"sort"
	"strconv"
	"strings"
	"sync"
	"time"
)

// Root is the /verif directory (overridable for tests of the machinery).
func Root() string {
	if r := os.Getenv("VERIF_ROOT"); r != "" {
		return r
	}
	return "/verif"
}

// Finding is one entry of known_findings.json.
type Finding struct {
	Property string `json:"property"`
	Key      string `json:"key"`
	Status   string `json:"status"` // open | fixed
	Commit   string `json:"commit,omitempty"`
	What     string `json:"what"`
}

// LoadFindings reads the committed known-findings file. It is never written
// at run time.
func LoadFindings() []Finding {
	b, err := os.ReadFile(filepath.Join(Root(), "known_findings.json"))
	if err != nil {
		return nil
	}
	var f struct {
		Findings []Finding `json:"findings"`
	}
	if err := json.Unmarshal(b, &f); err != nil {
		fmt.Fprintf(os.Stderr, "FRAMEWORK: known_findings.json: %v\n", err)
		os.Exit(2)
	}
	return f.Findings
}

// Run collects what one invocation of a check did.
type Run struct {
	Prop  string
	Tier  string
	Seed  int
	Level string
	Part  string

	mu          sync.Mutex
	start       time.Time
	cov         map[string]any
	assumptions []string
	violations  int
	violKeys    map[string]bool
	knownSeen   map[string]int
	findings    []Finding
	samples     []any
	maxSamples  int
	nonExh      []string
}

// Start begins a run for property prop at evidence level level.
func Start(prop, level string) *Run {
	tier := os.Getenv("VERIF_TIER")
	if tier != "thorough" {
		tier = "quick"
	}
	seed, _ := strconv.Atoi(os.Getenv("VERIF_SEED"))
	return &Run{
		Prop: prop, Tier: tier, Seed: seed, Level: level,
		start:      time.Now(),
		cov:        map[string]any{},
		violKeys:   map[string]bool{},
		knownSeen:  map[string]int{},
		findings:   LoadFindings(),
		maxSamples: 12,
	}
}

// StartPart begins a run that contributes one part of a composite check; its
// evidence goes to .work/parts/<prop>.<part>.json and is merged by evmerge.
func StartPart(prop, level, part string) *Run {
	r := Start(prop, level)
	r.Part = part
	return r
}

// OpenKeys returns the keys of the open known findings of this property.
func (r *Run) OpenKeys() []string {
	var out []string
	for _, f := range r.findings {
		if f.Property == r.Prop && f.Status == "open" {
			out = append(out, f.Key)
		}
	}
	return out
}

// Thorough reports whether the thorough tier was requested.
func (r *Run) Thorough() bool { return r.Tier == "thorough" }

// Set records a coverage key.
func (r *Run) Set(k string, v any) {
	r.mu.Lock()
	defer r.mu.Unlock()
	r.cov[k] = v
}

// Add adds n to an integer coverage counter.
func (r *Run) Add(k string, n int64) {
	r.mu.Lock()
	defer r.mu.Unlock()
	cur, _ := r.cov[k].(int64)
	r.cov[k] = cur + n
}

// Get returns an integer coverage counter.
func (r *Run) Get(k string) int64 {
	r.mu.Lock()
	defer r.mu.Unlock()
	cur, _ := r.cov[k].(int64)
	return cur
}

// Sample records one explored case for the evidence file (bounded).
func (r *Run) Sample(s any) {
	r.mu.Lock()
	defer r.mu.Unlock()
	if len(r.samples) < r.maxSamples {
		r.samples = append(r.samples, s)
	}
}

// Assume records an assumption / trusted-base statement.
func (r *Run) Assume(s string) {
	r.mu.Lock()
	defer r.mu.Unlock()
	for _, a := range r.assumptions {
		if a == s {
			return
		}
	}
	r.assumptions = append(r.assumptions, s)
}

// NotExhaustive records that some part of the run was capped.
func (r *Run) NotExhaustive(why string) {
	r.mu.Lock()
	defer r.mu.Unlock()
	r.nonExh = append(r.nonExh, why)
}

// Violations returns the number of unlisted violations seen so far.
func (r *Run) Violations() int {
	r.mu.Lock()
	defer r.mu.Unlock()
	return r.violations
}

// Violation reports a failure of the property. key classifies the failing
// input / call site / history narrowly; it is what known_findings.json is
// matched against. replay is written to replays/<prop>/ as JSON.
// It returns true when the violation was not a listed known finding.
func (r *Run) Violation(key, what string, replay any) bool {
	r.mu.Lock()
	defer r.mu.Unlock()

	for _, f := range r.findings {
		if f.Property == r.Prop && f.Status == "open" && f.Key == key {
			if r.knownSeen[key] == 0 {
				fmt.Printf("KNOWN-FINDING: property=%s key=%s %s\n",
					r.Prop, key, oneLine(f.What))
			}
			r.knownSeen[key]++
			return false
		}
	}

	r.violations++
	if r.violKeys[key] {
		return true
	}
	r.violKeys[key] = true

	dir := filepath.Join(Root(), "replays", r.Prop)
	_ = os.MkdirAll(dir, 0o755)
	name := sanitize(key)
	if len(name) > 80 {
		name = name[:80]
	}
	path := filepath.Join(dir, name+".json")
	doc := map[string]any{
		"property": r.Prop,
		"key":      key,
		"what":     what,
		"tier":     r.Tier,
		"replay":   replay,
	}
	b, _ := json.MarshalIndent(doc, "", " ")
	_ = os.WriteFile(path, b, 0o644)

	fmt.Printf("VIOLATION property=%s replay=%s\n", r.Prop, path)
	fmt.Printf("  key=%s\n  %s\n", key, oneLine(what))
	return true
}

func oneLine(s string) string {
	s = strings.ReplaceAll(s, "\n", " | ")
	if len(s) > 600 {
		s = s[:600] + "..."
	}
	return s
}

func sanitize(s string) string {
	var b strings.Builder
	for _, c := range s {
		switch {
		case c >= 'a' && c <= 'z', c >= 'A' && c <= 'Z',
			c >= '0' && c <= '9', c == '-', c == '_', c == '.':
			b.WriteRune(c)
		default:
			b.WriteByte('_')
		}
	}
	return b.String()
}

// Finish writes evidence/<prop>.json and returns the process exit code.
func (r *Run) Finish() int {
	r.mu.Lock()
	defer r.mu.Unlock()

	cov := map[string]any{}
	for k, v := range r.cov {
		cov[k] = v
	}
	if _, ok := cov["samples"]; !ok {
		if len(r.samples) == 0 {
			r.samples = []any{"(none recorded)"}
		}
		cov["samples"] = r.samples
	}
	if _, ok := cov["exhaustive"]; !ok {
		cov["exhaustive"] = len(r.nonExh) == 0
	}
	if len(r.nonExh) > 0 {
		cov["exhaustive"] = false
		cov["capped"] = r.nonExh
	}
	known := []string{}
	for k, n := range r.knownSeen {
		known = append(known, fmt.Sprintf("%s x%d", k, n))
	}
	sort.Strings(known)
	cov["known_findings_observed"] = known

	doc := map[string]any{
		"property_id": r.Prop,
		"tier":        r.Tier,
		"seed":        r.Seed,
		"level":       r.Level,
		"coverage":    cov,
		"assumptions": r.assumptions,
		"wall_s":      time.Since(r.start).Seconds(),
		"violations":  r.violations,
	}
	if r.assumptions == nil {
		doc["assumptions"] = []string{}
	}
	var buf bytes.Buffer
	enc := json.NewEncoder(&buf)
	enc.SetEscapeHTML(false)
	enc.SetIndent("", " ")
	err := enc.Encode(doc)
	b := bytes.TrimRight(buf.Bytes(), "\n")
	if err != nil {
		fmt.Fprintf(os.Stderr, "FRAMEWORK: evidence marshal: %v\n", err)
		return 2
	}
	dir := filepath.Join(Root(), "evidence")
	file := r.Prop + ".json"
	if r.Part != "" {
		dir = filepath.Join(Root(), ".work", "parts")
		file = r.Prop + "." + r.Part + ".json"
	}
	_ = os.MkdirAll(dir, 0o755)
	if err := os.WriteFile(filepath.Join(dir, file), append(b, '\n'), 0o644); err != nil {
		fmt.Fprintf(os.Stderr, "FRAMEWORK: evidence write: %v\n", err)
		return 2
	}
	fmt.Printf("RESULT property=%s tier=%s violations=%d known=%d wall=%.1fs\n",
		r.Prop, r.Tier, r.violations, len(r.knownSeen), time.Since(r.start).Seconds())
	if r.violations > 0 {
		return 1
	}
	return 0
}

// Framework aborts with a framework error (exit 2): never a VIOLATION.
func Framework(format string, a ...any) {
	fmt.Fprintf(os.Stderr, "FRAMEWORK ERROR: "+format+"\n", a...)
	os.Exit(2)
}
