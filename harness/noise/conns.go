package noiseh

import (
	"bytes"
	"context"
	"errors"
	"fmt"
	"io"
	"net"
	"sync"
	"time"

	"github.com/lightninglabs/lightning-node-connect/mailbox"
)

// connPair is a connected pair of secured connections of one type.
type connPair struct {
	kind string
	A, B net.Conn // A = initiator / client side, B = responder / server side
	d    *duplex
	// closeWrite ends the given direction after everything written so
	// far has been delivered ("a2b" or "b2a").
	closeWrite func(dir string)
	mI, mR     *mailbox.Machine
}

// newGrpcPair builds two NoiseGrpcConn over the in-memory duplex through
// their real ClientHandshake / ServerHandshake entry points.
func newGrpcPair(c hsCase) (*connPair, error) {
	ini, rsp := c.parties()
	ri, rr := &partyResult{}, &partyResult{}
	cdI, cdR := ini.connData(ri), rsp.connData(rr)
	d := newDuplex()
	gI := mailbox.NewNoiseGrpcConn(cdI, mailbox.WithMinHandshakeVersion(c.cMin), mailbox.WithMaxHandshakeVersion(c.cMax))
	gR := mailbox.NewNoiseGrpcConn(cdR, mailbox.WithMinHandshakeVersion(c.sMin), mailbox.WithMaxHandshakeVersion(c.sMax))
	var (
		wg     sync.WaitGroup
		cA, cB net.Conn
		eA, eB error
	)
	wg.Add(2)
	go func() {
		defer wg.Done()
		cA, _, eA = gI.ClientHandshake(context.Background(), "", d.I)
		if eA != nil {
			d.I.Close()
		}
	}()
	go func() {
		defer wg.Done()
		cB, _, eB = gR.ServerHandshake(d.R)
		if eB != nil {
			d.R.Close()
		}
	}()
	wg.Wait()
	if eA != nil || eB != nil {
		return nil, fmt.Errorf("grpc pair handshake: %v / %v", eA, eB)
	}
	return &connPair{kind: "NoiseGrpcConn", A: cA, B: cB, d: d, closeWrite: func(dir string) {
		if dir == "a2b" {
			d.i2r.Close()
		} else {
			d.r2i.Close()
		}
	}}, nil
}

// newTCPPair builds two NoiseConn (the TCP variant) over the duplex.
func newTCPPair(c hsCase) (*connPair, error) {
	ini, rsp := c.parties()
	ri, rr, d, err := runHandshake(ini, rsp, hsOpts{})
	if err != nil {
		return nil, err
	}
	if !ri.completed || !rr.completed {
		return nil, fmt.Errorf("tcp pair handshake: %v / %v", ri.err, rr.err)
	}
	a := mailbox.VerifNewNoiseConn(d.I, ri.machine)
	b := mailbox.VerifNewNoiseConn(d.R, rr.machine)
	return &connPair{kind: "NoiseConn", A: a, B: b, d: d, mI: ri.machine, mR: rr.machine, closeWrite: func(dir string) {
		if dir == "a2b" {
			d.i2r.Close()
		} else {
			d.r2i.Close()
		}
	}}, nil
}

// fakeControl is an in-memory control connection (what ClientConn /
// ServerConn are to connKit): a queue of serialized control messages.
type fakeControl struct {
	mu     sync.Mutex
	cond   *sync.Cond
	out    *fakeControl
	queue  [][]byte
	closed bool
}

func newFakeControlPair() (*fakeControl, *fakeControl) {
	a, b := &fakeControl{}, &fakeControl{}
	a.cond, b.cond = sync.NewCond(&a.mu), sync.NewCond(&b.mu)
	a.out, b.out = b, a
	return a, b
}

func (f *fakeControl) SendControlMsg(m mailbox.ControlMsg) error {
	b, err := m.Serialize()
	if err != nil {
		return err
	}
	o := f.out
	o.mu.Lock()
	defer o.mu.Unlock()
	if o.closed {
		return errors.New("closed")
	}
	o.queue = append(o.queue, b)
	o.cond.Broadcast()
	return nil
}

func (f *fakeControl) ReceiveControlMsg(m mailbox.ControlMsg) error {
	f.mu.Lock()
	for len(f.queue) == 0 {
		if f.closed {
			f.mu.Unlock()
			return io.EOF
		}
		f.cond.Wait()
	}
	b := f.queue[0]
	f.queue = f.queue[1:]
	f.mu.Unlock()
	return m.Deserialize(b)
}

func (f *fakeControl) SetRecvTimeout(time.Duration) {}
func (f *fakeControl) SetSendTimeout(time.Duration) {}

func (f *fakeControl) closeIncoming() {
	f.mu.Lock()
	f.closed = true
	f.cond.Broadcast()
	f.mu.Unlock()
}

// kitConn turns a connKit into a net.Conn for the common driver.
type kitConn struct {
	*mailbox.VerifConnKit
}

func (k kitConn) Close() error { return nil }

func newKitPair() *connPair {
	fa, fb := newFakeControlPair()
	var sid [64]byte
	a := kitConn{mailbox.VerifNewConnKit(fa, sid)}
	b := kitConn{mailbox.VerifNewConnKit(fb, sid)}
	return &connPair{kind: "connKit", A: a, B: b, closeWrite: func(dir string) {
		if dir == "a2b" {
			fb.closeIncoming()
		} else {
			fa.closeIncoming()
		}
	}}
}

// streamResult is what the reader observed.
type streamResult struct {
	data        []byte
	reads       int
	overrun     string // first Read that reported n > len(buf) or n < 0
	spuriousEOF int    // (0, EOF) although more data followed
	finalErr    error
	wrote       []byte // concatenation of accepted writes
	writeErrs   []string
}

const sentinel = 0xA5

// runStream writes the given sizes on from and then reads on to with the
// given buffer sizes (cycled) until the stream is exhausted.
func runStream(p *connPair, dir string, writes []int, bufs []int) *streamResult {
	from, to := p.A, p.B
	if dir == "b2a" {
		from, to = p.B, p.A
	}
	res := &streamResult{}
	ctr := 0
	for wi, sz := range writes {
		b := make([]byte, sz)
		for i := range b {
			ctr++
			b[i] = byte(ctr*131 + wi*17 + 1)
		}
		n, err := from.Write(b)
		switch {
		case err != nil:
			res.writeErrs = append(res.writeErrs, fmt.Sprintf("write %d (%d bytes): n=%d err=%v", wi, sz, n, err))
			if n > 0 && n <= sz {
				res.wrote = append(res.wrote, b[:n]...)
			}
		case n != sz:
			res.writeErrs = append(res.writeErrs, fmt.Sprintf("write %d (%d bytes): returned n=%d without error", wi, sz, n))
			if n > 0 && n <= sz {
				res.wrote = append(res.wrote, b[:n]...)
			}
		default:
			res.wrote = append(res.wrote, b...)
		}
		// net.Conn: an implementation must not retain the slice passed to
		// Write; the caller reuses its buffer as soon as Write has returned
		for i := range b {
			b[i] = 0xEE
		}
	}
	p.closeWrite(dir)

	errsInRow := 0
	for i := 0; ; i++ {
		if i > len(res.wrote)+len(writes)*3+20 {
			res.finalErr = errors.New("reader does not terminate")
			break
		}
		bl := bufs[i%len(bufs)]
		buf := make([]byte, bl+8)
		for j := range buf {
			buf[j] = sentinel
		}
		n, err := to.Read(buf[:bl])
		res.reads++
		if n < 0 || n > bl {
			if res.overrun == "" {
				res.overrun = fmt.Sprintf("Read #%d with a %d-byte buffer returned n=%d", i, bl, n)
			}
			if n > bl {
				n = bl
			}
			if n < 0 {
				n = 0
			}
		}
		if !bytes.Equal(buf[bl:], bytes.Repeat([]byte{sentinel}, 8)) {
			res.overrun = fmt.Sprintf("Read #%d wrote beyond its %d-byte buffer", i, bl)
		}
		res.data = append(res.data, buf[:n]...)
		if err != nil {
			if n == 0 && errors.Is(err, io.EOF) && len(res.data) < len(res.wrote) {
				res.spuriousEOF++
			}
			errsInRow++
			res.finalErr = err
			if errsInRow >= 3 {
				break
			}
			continue
		}
		errsInRow = 0
		if len(res.data) >= len(res.wrote)+1 {
			break
		}
	}
	return res
}
