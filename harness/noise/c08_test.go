package noiseh

import (
	"bytes"
	"errors"
	"fmt"
	"testing"

	"github.com/lightninglabs/lightning-node-connect/mailbox"

	"verif/lib/ev"
)

type nonceKey struct {
	key   [32]byte
	nonce uint64
}

// streamChecker drives one direction (writer machine -> reader machine) record
// by record and evaluates the C08 oracle after every record.
type streamChecker struct {
	r        *ev.Run
	label    string
	w, rd    *mailbox.Machine
	used     map[nonceKey]int // (key, nonce) pairs used for encryption -> record index
	ciphers  map[string]int   // header / body ciphertexts seen
	markers  [][]byte         // plaintext markers that must not appear on the wire
	n        int
	failed   bool
	rotW     int
	interval uint64
}

func newStreamChecker(r *ev.Run, label string, w, rd *mailbox.Machine, markers [][]byte) *streamChecker {
	return &streamChecker{r: r, label: label, w: w, rd: rd, used: map[nonceKey]int{}, ciphers: map[string]int{},
		markers: markers, interval: mailbox.VerifKeyRotationInterval}
}

func (s *streamChecker) fail(key, what string) {
	s.failed = true
	s.r.Violation(key, fmt.Sprintf("%s, record #%d: %s", s.label, s.n, what), map[string]any{"stream": s.label, "record": s.n})
}

// sendWithRefusedWrite writes one record over a transport that times out
// after a few bytes; while the record is pending another write is attempted
// (it must be refused and must leave the cipher state alone); then the record
// is flushed and the peer reads it.
func (s *streamChecker) sendWithRefusedWrite(msg []byte, accept int) {
	if s.failed {
		return
	}
	if err := s.w.WriteMessage(msg); err != nil {
		s.fail("write-fails", err.Error())
		return
	}
	snk := &sink{budgets: []int{accept}}
	if _, err := s.w.Flush(snk); err == nil {
		s.fail("partial-flush", "the scripted transport timeout did not surface")
		return
	}
	pending := s.w.VerifSend()
	err := s.w.WriteMessage([]byte("refused"))
	if !errors.Is(err, mailbox.ErrMessageNotFlushed) {
		s.fail("new-record-while-pending", fmt.Sprintf("WriteMessage returned %v while a record was pending", err))
		return
	}
	if now := s.w.VerifSend(); now != pending {
		s.fail("refused-write-advances-cipher",
			fmt.Sprintf("a WriteMessage that was refused (ErrMessageNotFlushed) moved the send cipher from nonce %d to nonce %d: the peer will not be able to decrypt what follows", pending.Nonce, now.Nonce))
		return
	}
	for k := 0; k < 4; k++ {
		if _, err := s.w.Flush(snk); err == nil {
			break
		} else if k == 3 {
			s.fail("flush-fails", err.Error())
			return
		}
	}
	got, err := s.rd.ReadMessage(bytes.NewReader(snk.buf.Bytes()))
	if err != nil || !bytes.Equal(got, msg) {
		s.fail("decrypt", fmt.Sprintf("the record flushed after a refused write does not decrypt: %v", err))
		return
	}
	s.n++
}

// sendWithReadWhilePending writes one record in steps - WriteMessage, a flush
// over a transport that times out after `accept` bytes (accept < 0: no flush
// attempt yet) - and, while that record is pending, has the writing party
// read `reads` records of the other direction (its reader goroutine runs
// while the writer is stuck); then the record is flushed and the peer reads
// it. The two directions of a machine are independent: what is read in
// between must not change what is still to be sent.
func (s *streamChecker) sendWithReadWhilePending(back *streamChecker, msg []byte, accept, reads int) {
	if s.failed || back.failed {
		return
	}
	if err := s.w.WriteMessage(msg); err != nil {
		s.fail("write-fails", err.Error())
		return
	}
	snk := &sink{budgets: []int{1 << 30}}
	if accept >= 0 {
		snk = &sink{budgets: []int{accept}}
		if _, err := s.w.Flush(snk); err == nil {
			s.fail("partial-flush", "the scripted transport timeout did not surface")
			return
		}
	}
	for i := 0; i < reads; i++ {
		back.send(msgOf('b', i, 7+i))
	}
	if back.failed {
		return
	}
	for k := 0; k < 4; k++ {
		if _, err := s.w.Flush(snk); err == nil {
			break
		} else if k == 3 {
			s.fail("flush-fails", err.Error())
			return
		}
	}
	got, err := s.rd.ReadMessage(bytes.NewReader(snk.buf.Bytes()))
	if err != nil || !bytes.Equal(got, msg) {
		s.fail("pending-record-damaged-by-read",
			fmt.Sprintf("a record was pending (transport accepted %d bytes) while the writing party read %d record(s) of the other direction; flushed afterwards it does not decrypt at the peer: err=%v", accept, reads, err))
		return
	}
	s.n++
}

// send writes one record and has the peer read it.
func (s *streamChecker) send(msg []byte) {
	if s.failed {
		return
	}
	before := s.w.VerifSend()
	var wire bytes.Buffer
	if err := s.w.WriteMessage(msg); err != nil {
		s.fail("write-fails", err.Error())
		return
	}
	if _, err := s.w.Flush(&wire); err != nil {
		s.fail("flush-fails", err.Error())
		return
	}
	after := s.w.VerifSend()

	// (key, nonce) pairs of the two encryptions of this record
	hdr := nonceKey{before.Key, before.Nonce}
	var body nonceKey
	if before.Nonce+1 == s.interval {
		// the header encryption triggered a rotation
		body = nonceKey{after.Key, 0}
		if after.Nonce != 1 {
			s.fail("nonce-schedule", fmt.Sprintf("nonce after a record that straddles a rotation is %d, expected 1", after.Nonce))
			return
		}
		s.rotW++
	} else {
		body = nonceKey{before.Key, before.Nonce + 1}
		wantN := before.Nonce + 2
		if wantN == s.interval {
			wantN = 0
			s.rotW++
			if after.Key == before.Key {
				s.fail("no-rotation", fmt.Sprintf("the key did not change after %d encryptions", s.interval))
				return
			}
		} else if after.Key != before.Key {
			s.fail("early-rotation", fmt.Sprintf("the key changed at nonce %d (interval %d)", before.Nonce, s.interval))
			return
		}
		if after.Nonce != wantN {
			s.fail("nonce-schedule", fmt.Sprintf("nonce went %d -> %d over one record, expected %d", before.Nonce, after.Nonce, wantN))
			return
		}
	}
	for _, nk := range []nonceKey{hdr, body} {
		if prev, dup := s.used[nk]; dup {
			s.fail("nonce-reuse", fmt.Sprintf("key/nonce pair (nonce %d) already used for record #%d", nk.nonce, prev))
			return
		}
		s.used[nk] = s.n
	}
	// wire format and ciphertext freshness
	wb := wire.Bytes()
	if len(wb) != 18+len(msg)+16 {
		s.fail("wire-length", fmt.Sprintf("%d bytes on the wire for %d plaintext bytes", len(wb), len(msg)))
		return
	}
	for _, part := range [][]byte{wb[:18], wb[18:]} {
		k := string(part)
		if prev, dup := s.ciphers[k]; dup {
			s.fail("ciphertext-repeats", fmt.Sprintf("ciphertext of %d bytes equals one of record #%d", len(part), prev))
			return
		}
		s.ciphers[k] = s.n
	}
	for _, m := range s.markers {
		if len(m) >= 8 && bytes.Contains(wb, m[:8]) {
			s.fail("plaintext-on-wire", "the wire record contains 8 bytes of plaintext / auth payload")
			return
		}
	}
	if len(msg) >= 8 && bytes.Contains(wb, msg[:8]) {
		s.fail("plaintext-on-wire", "the wire record contains the first 8 bytes of its own plaintext")
		return
	}
	// the peer reads it
	got, err := s.rd.ReadMessage(bytes.NewReader(wb))
	if err != nil {
		s.fail("decrypt-fails", fmt.Sprintf("the reader fails on an untouched record: %v (writer nonce %d, reader nonce %d)", err, before.Nonce, s.rd.VerifRecv().Nonce))
		return
	}
	if !bytes.Equal(got, msg) {
		s.fail("decrypts-to-other-data", fmt.Sprintf("%d bytes written, %d different bytes read", len(msg), len(got)))
		return
	}
	// lock step
	ws, rs := s.w.VerifSend(), s.rd.VerifRecv()
	if ws.Key != rs.Key || ws.Nonce != rs.Nonce || ws.Salt != rs.Salt {
		s.fail("rotation-out-of-step", fmt.Sprintf("after the record writer (nonce %d) and reader (nonce %d) hold different cipher states", ws.Nonce, rs.Nonce))
		return
	}
	s.n++
}

func TestC08(t *testing.T) {
	if !want(t, "C08") {
		return
	}
	r := ev.Start("C08", "exploration")
	cfgs := []hsCase{
		{cMin: 2, cMax: 2, sMin: 2, sMax: 2, payload: 64},
		{kk: true, cMin: 2, cMax: 2, sMin: 2, sMax: 2, payload: 64},
		{cMin: 0, cMax: 0, sMin: 0, sMax: 0, payload: 64},
	}
	rotations := 8
	if r.Thorough() {
		rotations = 24
	}
	perRot := int(mailbox.VerifKeyRotationInterval) / 2
	var evals, records int64
	patterns := 0

	fresh := func(c hsCase) (*mailbox.Machine, *mailbox.Machine) {
		a, b, err := pairOfMachines(c)
		if err != nil {
			ev.Framework("%v", err)
		}
		return a, b
	}
	markers := [][]byte{authPayload(64)}
	equal := []byte("EQUAL-PLAINTEXT-0123456789")

	for ci, c := range cfgs {
		if ci > 0 && !r.Thorough() && ci == 2 {
			continue
		}
		// 1. long streams of equal plaintexts, both directions, checked
		// after every record (= every prefix length)
		a, b := fresh(c)
		ab := newStreamChecker(r, c.String()+" i->r equal plaintexts", a, b, markers)
		ba := newStreamChecker(r, c.String()+" r->i equal plaintexts", b, a, markers)
		n := rotations*perRot + 100
		for i := 0; i < n; i++ {
			ab.send(equal)
			ba.send(equal)
		}
		records += int64(ab.n + ba.n)
		patterns += 2
		if ab.rotW < rotations || ba.rotW < rotations {
			r.Violation("vacuous/rotations", fmt.Sprintf("%v: only %d/%d rotations crossed", c, ab.rotW, ba.rotW), c.String())
		}

		// 2. distinct plaintexts, sizes 0 / 1 / 65535 placed around every
		// rotation boundary
		a, b = fresh(c)
		ab = newStreamChecker(r, c.String()+" i->r sizes around boundaries", a, b, markers)
		for i := 0; i < 3*perRot+10; i++ {
			size := 20 + i%7
			d := i % perRot
			if d >= perRot-2 || d <= 2 {
				size = []int{0, 1, 65535, 0, 65535}[(i/perRot+d)%5]
			}
			ab.send(msgOf('S', i, size))
		}
		records += int64(ab.n)
		patterns++

		// 3. direction interleavings with both directions positioned just
		// before a rotation boundary: all interleavings of 4+4 records
		if ci == 0 || r.Thorough() {
			var masks []int
			for m := 0; m < 256; m++ {
				bits := 0
				for x := m; x > 0; x >>= 1 {
					bits += x & 1
				}
				if bits == 4 {
					masks = append(masks, m)
				}
			}
			for _, m := range masks {
				a, b = fresh(c)
				ab = newStreamChecker(r, fmt.Sprintf("%v interleaving %08b i->r", c, m), a, b, markers)
				ba = newStreamChecker(r, fmt.Sprintf("%v interleaving %08b r->i", c, m), b, a, markers)
				for i := 0; i < perRot-2; i++ {
					ab.send(equal)
					ba.send(equal)
				}
				for bit := 0; bit < 8; bit++ {
					if m>>bit&1 == 1 {
						ab.send(equal)
					} else {
						ba.send(equal)
					}
				}
				records += int64(ab.n + ba.n)
				patterns++
				evals++
			}
			// block patterns A^k B^k and alternation
			for _, k := range []int{1, perRot - 1, perRot, perRot + 1} {
				a, b = fresh(c)
				ab = newStreamChecker(r, fmt.Sprintf("%v blocks of %d i->r", c, k), a, b, markers)
				ba = newStreamChecker(r, fmt.Sprintf("%v blocks of %d r->i", c, k), b, a, markers)
				for rep := 0; rep < 3; rep++ {
					for i := 0; i < k; i++ {
						ab.send(msgOf('x', i, 9))
					}
					for i := 0; i < k; i++ {
						ba.send(msgOf('y', i, 9))
					}
				}
				records += int64(ab.n + ba.n)
				patterns++
			}
		}
	}
	// a write attempted (and refused) while a record is pending, at
	// several positions relative to a rotation boundary
	for _, c := range cfgs {
		for _, pos := range []int{0, 3, perRot - 2, perRot - 1, perRot} {
			for _, accept := range []int{0, 5, 18, 20, 30} {
				a, b := fresh(c)
				ab := newStreamChecker(r, fmt.Sprintf("%v refused write after %d records, transport accepts %d bytes", c, pos, accept), a, b, markers)
				for i := 0; i < pos; i++ {
					ab.send(msgOf('p', i, 9))
				}
				ab.sendWithRefusedWrite(msgOf('q', 0, 9), accept)
				for i := 0; i < 3; i++ {
					ab.send(msgOf('r', i, 9))
				}
				records += int64(ab.n)
				patterns++
			}
		}
	}
	// a record of the other direction read while a record is pending
	// (reader and writer of a connection are different goroutines), at
	// several positions relative to a rotation boundary, both parties
	for _, c := range cfgs {
		for _, pos := range []int{0, perRot - 1} {
			for _, accept := range []int{-1, 0, 5, 17, 18, 20, 30} {
				for _, reads := range []int{1, 2} {
					for _, who := range []int{0, 1} {
						a, b := fresh(c)
						if who == 1 {
							a, b = b, a
						}
						lab := fmt.Sprintf("%v party %d reads %d record(s) while its record is pending after %d records, transport accepted %d bytes", c, who, reads, pos, accept)
						ab := newStreamChecker(r, lab, a, b, markers)
						ba := newStreamChecker(r, lab+" (other direction)", b, a, markers)
						for i := 0; i < pos; i++ {
							ab.send(msgOf('p', i, 9))
							ba.send(msgOf('P', i, 9))
						}
						ab.sendWithReadWhilePending(ba, msgOf('q', 0, 9), accept, reads)
						for i := 0; i < 3; i++ {
							ab.send(msgOf('r', i, 9))
							ba.send(msgOf('R', i, 9))
						}
						records += int64(ab.n + ba.n)
						patterns++
					}
				}
			}
		}
	}
	r.Sample(map[string]any{"pattern": "equal plaintexts, both directions alternating", "records_per_direction": rotations*perRot + 100, "rotations_crossed": rotations})
	r.Sample(map[string]any{"pattern": "interleaving 00101101 of 4+4 records with both directions 2 records before a rotation"})
	r.Set("evaluations", records)
	r.Set("distinct_nontrivial", int64(patterns))
	r.Set("records_checked", records)
	r.Set("rule", "per session (XX v2, KK, XX v0 thorough): streams of equal plaintexts across 8 (quick) / 24 (thorough) key rotations in both directions alternating, checked after every record; sizes 0/1/65535 placed within two records of every rotation boundary; all 70 interleavings of 4+4 records with both directions positioned two records before a rotation; block patterns of 1, 499, 500, 501 records; a write refused while a record is pending; records of the other direction read while a record is pending (transport accepted -1(no flush yet)/0/5/17/18/20/30 bytes). Oracle after every record: reader output = writer input, (key, nonce) pairs of both encryptions never reused, header and body ciphertexts never repeat, key changes exactly when the nonce reaches the interval, writer and reader cipher states identical, no 8-byte window of plaintext or auth payload on the wire. evaluations = records checked; distinct_nontrivial = stream patterns")
	r.Set("exhaustive", true)
	_ = evals
	exitCode = r.Finish()
}
