package noiseh

import (
	"bytes"
	"fmt"
	"sync"
	"sync/atomic"
	"testing"

	"github.com/lightninglabs/lightning-node-connect/mailbox"

	"verif/lib/ev"
)

// TestC07noise is the Noise part of C07: whatever bytes arrive in place of a
// handshake act or of a transport record, the receiving side returns an error
// (or completes); it never panics.
func TestC07noise(t *testing.T) {
	if !want(t, "C07") {
		return
	}
	r := ev.StartPart("C07", "exploration", "noise")
	var evals, nontrivial int64
	var mu sync.Mutex
	classes := map[string]int{}
	note := func(c string) { mu.Lock(); classes[c]++; mu.Unlock() }

	cfgs := []hsCase{
		{cMin: 0, cMax: 0, sMin: 0, sMax: 0, payload: 9},
		{cMin: 0, cMax: 2, sMin: 0, sMax: 2, payload: 9},
		{kk: true, cMin: 2, cMax: 2, sMin: 2, sMax: 2, payload: 9},
	}
	type job struct {
		c     hsCase
		act   int
		label string
		repl  func(orig []byte) []byte
	}
	var jobs []job
	// the acts of another session (different ephemerals), for substitution
	other := map[string][][]byte{}
	for _, c := range cfgs {
		ini, rsp := c.parties()
		ini.ephTag, rsp.ephTag = "other-i", "other-r"
		ri, rr, _, err := runHandshake(ini, rsp, hsOpts{})
		if err != nil || !ri.completed || !rr.completed {
			ev.Framework("baseline handshake failed")
		}
		acts := [][]byte{ri.wrote[0], rr.wrote[0]}
		if !c.kk {
			acts = append(acts, ri.wrote[1])
		}
		other[c.String()] = acts
		for a, orig := range acts {
			a := a
			for n := 0; n < len(orig); n++ {
				n := n
				jobs = append(jobs, job{c, a, fmt.Sprintf("act %d truncated to %d of %d bytes", a+1, n, len(orig)),
					func(o []byte) []byte { return o[:n] }})
			}
			for _, fill := range []byte{0x00, 0xff, 0x02, 0x03} {
				fill := fill
				for _, ln := range []int{len(orig), 1, 34, 50, len(orig) + 40} {
					ln := ln
					jobs = append(jobs, job{c, a, fmt.Sprintf("act %d replaced by %d bytes of %02x", a+1, ln, fill),
						func(o []byte) []byte { return bytes.Repeat([]byte{fill}, ln) }})
				}
				// keep the version byte, garbage after it
				jobs = append(jobs, job{c, a, fmt.Sprintf("act %d: version byte kept, rest %02x", a+1, fill),
					func(o []byte) []byte {
						b := bytes.Repeat([]byte{fill}, len(o))
						b[0] = o[0]
						return b
					}})
			}
			jobs = append(jobs, job{c, a, fmt.Sprintf("act %d replaced by the same act of another session", a+1),
				func(o []byte) []byte { return other[c.String()][a] }})
			for b := 0; b < len(acts); b++ {
				if b != a {
					b := b
					jobs = append(jobs, job{c, a, fmt.Sprintf("act %d replaced by act %d of another session", a+1, b+1),
						func(o []byte) []byte { return other[c.String()][b] }})
				}
			}
			// an act two that announces a huge payload (v1/v2) cannot be
			// forged without the key; version bytes beyond the range
			for v := 3; v < 256; v += 36 {
				v := v
				jobs = append(jobs, job{c, a, fmt.Sprintf("act %d with version byte %d", a+1, v),
					func(o []byte) []byte { b := append([]byte{}, o...); b[0] = byte(v); return b }})
			}
		}
	}
	parallel(len(jobs), func(i int) {
		j := jobs[i]
		ed := func(target int) func(int, []byte) ([][]byte, bool) {
			return func(idx int, ch []byte) ([][]byte, bool) {
				if idx == target {
					// deliver the replacement, then end the
					// direction so that a reader waiting for more
					// sees EOF instead of hanging
					return [][]byte{j.repl(ch)}, true
				}
				return [][]byte{ch}, false
			}
		}
		o := hsOpts{}
		switch j.act {
		case 0:
			o.editI2R = ed(0)
		case 1:
			o.editR2I = ed(0)
		case 2:
			o.editI2R = ed(1)
		}
		ini, rsp := j.c.parties()
		ri, rr, _, err := runHandshake(ini, rsp, o)
		atomic.AddInt64(&evals, 1)
		if err != nil {
			r.Violation("noise/hang", fmt.Sprintf("%v, %s: %v", j.c, j.label, err), j.label)
			return
		}
		for name, p := range map[string]*partyResult{"initiator": ri, "responder": rr} {
			if p.panicked != "" {
				site := "?"
				for _, l := range bytes.Split([]byte(p.panicked), []byte("\n")) {
					if bytes.Contains(l, []byte("mailbox.(")) {
						site = string(bytes.TrimSpace(l))
						if k := bytes.LastIndexByte([]byte(site), '('); k > 0 {
							site = site[:k]
						}
						if k := bytes.LastIndex([]byte(site), []byte("/")); k > 0 {
							site = site[k+1:]
						}
						break
					}
				}
				r.Violation("noise/panic/"+site, fmt.Sprintf("%v, %s: the %s panics: %.200s", j.c, j.label, name, p.panicked),
					map[string]any{"case": j.c.String(), "input": j.label})
				return
			}
		}
		if !ri.completed || !rr.completed {
			atomic.AddInt64(&nontrivial, 1)
		}
		note(fmt.Sprintf("act%d/i=%v/r=%v", j.act+1, ri.completed, rr.completed))
	})
	r.Sample(map[string]any{"case": cfgs[1].String(), "input": "act 2 truncated to 83 of 117 bytes"})

	// transport records: garbage in place of a record
	var recJobs [][]byte
	for _, ln := range []int{0, 1, 17, 18, 19, 34, 35, 100} {
		for _, fill := range []byte{0x00, 0xff, 0x55} {
			recJobs = append(recJobs, bytes.Repeat([]byte{fill}, ln))
		}
	}
	for _, g := range recJobs {
		for _, c := range cfgs[1:] {
			_, rd, err := pairOfMachines(c)
			if err != nil {
				ev.Framework("%v", err)
			}
			evals++
			func() {
				defer func() {
					if rec := recover(); rec != nil {
						r.Violation("noise/panic/ReadMessage", fmt.Sprintf("%v: ReadMessage panics on %d bytes of %02x: %v", c, len(g), g[:min(1, len(g))], rec), fmt.Sprintf("%x", g))
					}
				}()
				_, err := rd.ReadMessage(bytes.NewReader(g))
				if err == nil {
					r.Violation("noise/garbage-accepted", fmt.Sprintf("%v: ReadMessage accepted %d bytes of garbage", c, len(g)), fmt.Sprintf("%x", g))
				}
				conn := mailbox.VerifNewNoiseConn(&side{in: newPipe(), out: newPipe()}, rd)
				_ = conn
			}()
		}
	}
	r.Set("evaluations", evals)
	r.Set("distinct_nontrivial", nontrivial)
	r.Set("outcome_classes", classes)
	r.Set("rule", "for XX v0, XX negotiating v2 and KK: each act truncated at every length (followed by end of stream), replaced by 1/34/50/len/len+40 bytes of 00, ff, 02, 03, with the version byte kept and garbage behind it, by the same or another act of a different session, and with out-of-range version bytes; transport records replaced by 0..100 bytes of garbage. Oracle: no panic on either side, no hang. distinct_nontrivial = inputs that made at least one side fail with an error")
	r.Set("exhaustive", true)
	exitCode = r.Finish()
}
