package noiseh

import (
	"bytes"
	"fmt"
	"sync"
	"sync/atomic"
	"testing"

	"verif/lib/ev"
)

func seqsOver(alpha []int, maxLen int) [][]int {
	var out [][]int
	var rec func(cur []int)
	rec = func(cur []int) {
		if len(cur) > 0 {
			out = append(out, append([]int{}, cur...))
		}
		if len(cur) == maxLen {
			return
		}
		for _, a := range alpha {
			rec(append(cur, a))
		}
	}
	rec(nil)
	return out
}

func TestC15(t *testing.T) {
	if !want(t, "C15") {
		return
	}
	r := ev.Start("C15", "exploration")
	var evals, nontrivial int64
	var mu sync.Mutex
	classes := map[string]int{}
	note := func(c string) { mu.Lock(); classes[c]++; mu.Unlock() }

	cfg := hsCase{cMin: 0, cMax: 2, sMin: 0, sMax: 2, payload: 5}
	mkPair := func(kind string) (*connPair, error) {
		switch kind {
		case "NoiseGrpcConn":
			return newGrpcPair(cfg)
		case "NoiseConn":
			return newTCPPair(cfg)
		}
		return newKitPair(), nil
	}

	type job struct {
		kind   string
		dir    string
		writes []int
		bufs   []int
	}
	var jobs []job
	kinds := []string{"NoiseGrpcConn", "NoiseConn", "connKit"}
	small := seqsOver([]int{0, 1, 2, 3}, 3)
	bufSeqs := seqsOver([]int{1, 2, 3, 4}, 3)
	if !r.Thorough() {
		bufSeqs = seqsOver([]int{1, 2, 3, 4}, 2)
	}
	for _, k := range kinds {
		for wi, w := range small {
			for bi, b := range bufSeqs {
				dir := "a2b"
				if (wi+bi)%2 == 1 {
					dir = "b2a"
				}
				jobs = append(jobs, job{k, dir, w, b})
			}
		}
		big := []int{0, 1, 32767, 32768, 32769, 65535}
		if k != "NoiseGrpcConn" {
			big = append(big, 65536, 65537, 131071)
		} else {
			big = append(big, 65536) // must be rejected, not truncated
		}
		for _, w := range big {
			for _, b := range []int{1, 2, 7, 32768, 65536, 70000} {
				if b == 1 && w > 40000 && !r.Thorough() {
					continue
				}
				jobs = append(jobs, job{k, "a2b", []int{w}, []int{b}})
				jobs = append(jobs, job{k, "b2a", []int{5, w, 3}, []int{b, 3}})
			}
		}
	}
	parallel(len(jobs), func(i int) {
		j := jobs[i]
		p, err := mkPair(j.kind)
		if err != nil {
			r.Violation("setup/"+j.kind, err.Error(), j.kind)
			return
		}
		res := runStream(p, j.dir, j.writes, j.bufs)
		atomic.AddInt64(&evals, 1)
		label := fmt.Sprintf("%s %s writes=%v read buffers=%v (cycled)", j.kind, j.dir, j.writes, j.bufs)
		ctx := map[string]any{"conn": j.kind, "dir": j.dir, "writes": j.writes, "buffers": j.bufs}
		minBuf := j.bufs[0]
		for _, b := range j.bufs {
			if b < minBuf {
				minBuf = b
			}
		}
		bufClass := "buf>=record"
		maxW := 0
		for _, w := range j.writes {
			if w > maxW {
				maxW = w
			}
		}
		if minBuf < maxW {
			bufClass = "buf<record"
		}
		if res.overrun != "" {
			r.Violation(fmt.Sprintf("read-overrun/%s/%s", j.kind, bufClass), label+": "+res.overrun, ctx)
			return
		}
		for _, we := range res.writeErrs {
			over := false
			for _, w := range j.writes {
				if w > 65535 && j.kind == "NoiseGrpcConn" {
					over = true
				}
			}
			if over && bytes.Contains([]byte(we), []byte("max allowed message length")) {
				note("oversize-write-rejected")
				continue
			}
			r.Violation("write/"+j.kind, label+": "+we, ctx)
			return
		}
		if !bytes.Equal(res.data, res.wrote) {
			kind := "mismatch"
			switch {
			case len(res.data) < len(res.wrote) && bytes.HasPrefix(res.wrote, res.data):
				kind = "bytes-lost-at-end"
			case len(res.data) < len(res.wrote):
				kind = "bytes-lost"
			case len(res.data) > len(res.wrote):
				kind = "bytes-added"
			}
			spur := ""
			if res.spuriousEOF > 0 {
				spur = "/after-spurious-eof"
			}
			r.Violation(fmt.Sprintf("stream-%s/%s/%s%s", kind, j.kind, bufClass, spur),
				fmt.Sprintf("%s: %d bytes written, %d bytes read (first difference at %d), final err=%v, spurious EOFs=%d",
					label, len(res.wrote), len(res.data), firstDiff(res.data, res.wrote), res.finalErr, res.spuriousEOF), ctx)
			return
		}
		if res.spuriousEOF > 0 {
			// The bytes all arrived, but a Read reported (0, io.EOF)
			// in the middle of the stream (an empty record): a
			// caller that stops at EOF loses the rest.
			note("spurious-eof-on-empty-record/" + j.kind)
			r.Violation("spurious-eof-on-empty-record/"+j.kind,
				fmt.Sprintf("%s: Read returned (0, io.EOF) %d time(s) although the stream was open and more data followed", label, res.spuriousEOF), ctx)
			return
		}
		if bufClass == "buf<record" {
			atomic.AddInt64(&nontrivial, 1)
		}
		note("ok/" + j.kind + "/" + bufClass)
	})
	r.Sample(map[string]any{"conn": "NoiseGrpcConn", "writes": []int{3, 0, 2}, "buffers": []int{1, 4}})
	r.Sample(map[string]any{"conn": "NoiseConn", "writes": []int{131071}, "buffers": []int{7}})
	// writes of more than one record over a transport that times out part
	// of the way (the byte count reported decides where the caller resumes)
	mc, mn := multiRecordWrites(r, r.Thorough())
	evals += mc
	nontrivial += mn
	r.Set("multi_record_write_scripts", mc)
	gc, gn := grpcWriteRetries(r)
	evals += gc
	nontrivial += gn
	r.Set("grpc_write_retry_scripts", gc)
	// consecutive connections on the same pair of NoiseGrpcConn objects
	cc, cn := grpcConsecutive(r)
	evals += cc
	nontrivial += cn
	r.Set("consecutive_connection_histories", cc)

	r.Set("evaluations", evals)
	r.Set("distinct_nontrivial", nontrivial)
	r.Set("outcome_classes", classes)
	r.Set("rule", "for NoiseGrpcConn (through ClientHandshake/ServerHandshake), NoiseConn and connKit: every write-size sequence of length <= 3 over {0,1,2,3} x every read-buffer-size sequence of length <= 2 (quick) / 3 (thorough) over {1,2,3,4} (cycled), both directions alternating; boundary writes {0,1,32767,32768,32769,65535,65536(,65537,131071)} x buffers {1,2,7,32768,65536,70000}. Oracle: 0<=n<=len(buf), nothing written beyond the buffer, concatenation read == concatenation of accepted writes, oversize writes rejected or chunked; NoiseConn.Write of more than one record over a transport that times out at one or two of ten offsets per record, the caller flushing and resuming at the reported offset: the peer reads exactly what was written; histories of two connections on the same pair of NoiseGrpcConn objects (a record of the first read in part or in full; the first connection closed, only its transport closed, or nothing closed yet): the second connection's stream is exactly what was written on it. distinct_nontrivial = passing cases in which some buffer was smaller than some record")
	r.Set("exhaustive", true)
	exitCode = r.Finish()
}

func firstDiff(a, b []byte) int {
	n := len(a)
	if len(b) < n {
		n = len(b)
	}
	for i := 0; i < n; i++ {
		if a[i] != b[i] {
			return i
		}
	}
	return n
}
