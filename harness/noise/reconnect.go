package noiseh

import (
	"bytes"
	"context"
	"fmt"
	"net"
	"sync"

	"github.com/lightninglabs/lightning-node-connect/mailbox"

	"verif/lib/ev"
)

// grpcConsecutive: a NoiseGrpcConn is the credentials object of a side and
// serves one connection after the other. Histories of two connections on the
// same pair of objects: on the first one a record is read only in part (or in
// full), then the connection ends in one of three ways - the secured
// connections are closed (the orderly life cycle), only the transport below
// them is closed (it died), or nothing is closed yet when the next handshake
// starts - and a second connection is set up on the same objects. Each
// connection is a stream of its own: what is read on the second one is
// exactly what was written on it, in both directions.
func grpcConsecutive(r *ev.Run) (cases, nontrivial int64) {
	type first struct{ write, read int }
	firsts := []first{{100, 10}, {40000, 7}, {65535, 32768}, {5, 5}, {1, 1}}
	hs := func(gI, gR *mailbox.NoiseGrpcConn) (a, b net.Conn, d *duplex, err error) {
		d = newDuplex()
		var wg sync.WaitGroup
		var eA, eB error
		wg.Add(2)
		go func() {
			defer wg.Done()
			a, _, eA = gI.ClientHandshake(context.Background(), "", d.I)
			if eA != nil {
				d.I.Close()
			}
		}()
		go func() {
			defer wg.Done()
			b, _, eB = gR.ServerHandshake(d.R)
			if eB != nil {
				d.R.Close()
			}
		}()
		wg.Wait()
		if eA != nil || eB != nil {
			return nil, nil, nil, fmt.Errorf("%v / %v", eA, eB)
		}
		return a, b, d, nil
	}
	for _, v := range []byte{1, 2} {
		for _, f := range firsts {
			for _, teardown := range []string{"closed", "transport-closed-only", "nothing-closed"} {
				for _, dir := range []string{"server-to-client", "client-to-server"} {
					cases++
					c := hsCase{cMin: v, cMax: v, sMin: v, sMax: v, payload: 5}
					label := fmt.Sprintf("NoiseGrpcConn pair at version %d, %s: first connection carries a %d byte record of which %d bytes are read, then %s, then a second connection on the same objects",
						v, dir, f.write, f.read, teardown)
					ctx := map[string]any{"version": v, "direction": dir, "first_write": f.write, "first_read": f.read, "teardown": teardown}
					ini, rsp := c.parties()
					ri, rr := &partyResult{}, &partyResult{}
					gI := mailbox.NewNoiseGrpcConn(ini.connData(ri), mailbox.WithMinHandshakeVersion(v), mailbox.WithMaxHandshakeVersion(v))
					gR := mailbox.NewNoiseGrpcConn(rsp.connData(rr), mailbox.WithMinHandshakeVersion(v), mailbox.WithMaxHandshakeVersion(v))
					a, b, d1, err := hs(gI, gR)
					if err != nil {
						r.Violation("setup/consecutive", label+": first handshake: "+err.Error(), ctx)
						continue
					}
					wr, rd := b, a
					if dir == "client-to-server" {
						wr, rd = a, b
					}
					msg1 := bytes.Repeat([]byte{'1'}, f.write)
					if n, err := wr.Write(msg1); err != nil || n != len(msg1) {
						r.Violation("setup/consecutive", fmt.Sprintf("%s: first write: n=%d err=%v", label, n, err), ctx)
						continue
					}
					buf := make([]byte, f.read)
					if n, err := rd.Read(buf); err != nil || n <= 0 || n > len(buf) {
						r.Violation("setup/consecutive", fmt.Sprintf("%s: first read: n=%d err=%v", label, n, err), ctx)
						continue
					}
					switch teardown {
					case "closed":
						_ = a.Close()
						_ = b.Close()
					case "transport-closed-only":
						_ = d1.I.Close()
						_ = d1.R.Close()
					}
					a2, b2, _, err := hs(gI, gR)
					if err != nil {
						r.Violation("consecutive/second-handshake-fails", label+": "+err.Error(), ctx)
						continue
					}
					wr, rd = b2, a2
					if dir == "client-to-server" {
						wr, rd = a2, b2
					}
					msg2 := []byte("second-connection-payload-28b")[:28]
					if n, err := wr.Write(msg2); err != nil || n != len(msg2) {
						r.Violation("consecutive/second-write-fails", fmt.Sprintf("%s: n=%d err=%v", label, n, err), ctx)
						continue
					}
					var got []byte
					var rerr error
					for k := 0; k < 8 && len(got) < len(msg2); k++ {
						buf := make([]byte, 64)
						n, err := rd.Read(buf)
						if n > 0 && n <= len(buf) {
							got = append(got, buf[:n]...)
						}
						if err != nil {
							rerr = err
							break
						}
					}
					if !bytes.Equal(got, msg2) {
						r.Violation("consecutive/second-connection-stream-differs/"+teardown,
							fmt.Sprintf("%s: %d bytes were written on the second connection, the reader got %d bytes (%q…), err=%v: bytes of the first connection's record were handed out on the second",
								label, len(msg2), len(got), trunc16(got), rerr), ctx)
						continue
					}
					if f.read < f.write {
						nontrivial++
					}
				}
			}
		}
	}
	return
}
