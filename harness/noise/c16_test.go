package noiseh

import (
	"bytes"
	"errors"
	"fmt"
	"sort"
	"sync"
	"sync/atomic"
	"testing"
	"time"

	"github.com/lightninglabs/lightning-node-connect/mailbox"

	"verif/lib/ev"
)

// cutter returns an edit function that delivers the index-th write of a
// direction in pieces cut at the given offsets.
func cutter(target int, cuts []int) func(int, []byte) ([][]byte, bool) {
	return func(idx int, ch []byte) ([][]byte, bool) {
		if idx != target {
			return [][]byte{ch}, false
		}
		var out [][]byte
		prev := 0
		for _, c := range cuts {
			if c > prev && c < len(ch) {
				out = append(out, ch[prev:c])
				prev = c
			}
		}
		out = append(out, ch[prev:])
		return out, false
	}
}

type timeoutErr struct{}

func (timeoutErr) Error() string   { return "i/o timeout" }
func (timeoutErr) Timeout() bool   { return true }
func (timeoutErr) Temporary() bool { return true }

// sink accepts budgets[i] bytes, then fails the write with a timeout, then
// continues with the next budget; when the script is over it accepts all.
type sink struct {
	budgets []int
	left    int
	started bool
	buf     bytes.Buffer
	calls   int
}

func (s *sink) Write(p []byte) (int, error) {
	s.calls++
	if !s.started {
		s.started = true
		s.next()
	}
	if s.left < 0 || s.left >= len(p) {
		if s.left >= 0 {
			s.left -= len(p)
		}
		s.buf.Write(p)
		return len(p), nil
	}
	n := s.left
	s.buf.Write(p[:n])
	s.next()
	return n, timeoutErr{}
}

func (s *sink) next() {
	if len(s.budgets) == 0 {
		s.left = -1
		return
	}
	s.left = s.budgets[0]
	s.budgets = s.budgets[1:]
}

// pairOfMachines runs a clean handshake and returns both machines.
func pairOfMachines(c hsCase) (*mailbox.Machine, *mailbox.Machine, error) {
	ini, rsp := c.parties()
	ri, rr, _, err := runHandshake(ini, rsp, hsOpts{})
	if err != nil {
		return nil, nil, err
	}
	if !ri.completed || !rr.completed {
		return nil, nil, fmt.Errorf("baseline handshake failed: %v / %v", ri.err, rr.err)
	}
	return ri.machine, rr.machine, nil
}

func interestingOffsets(n int, marks []int) []int {
	set := map[int]bool{}
	for _, m := range marks {
		for d := -1; d <= 1; d++ {
			if o := m + d; o > 0 && o < n {
				set[o] = true
			}
		}
	}
	for o := 1; o < n; o += 37 {
		set[o] = true
	}
	var out []int
	for o := range set {
		out = append(out, o)
	}
	sort.Ints(out)
	return out
}

func TestC16(t *testing.T) {
	if !want(t, "C16") {
		return
	}
	r := ev.Start("C16", "fault_enumeration")
	var evals, nontrivial int64
	var mu sync.Mutex
	classes := map[string]int{}
	note := func(c string) { mu.Lock(); classes[c]++; mu.Unlock() }

	// ---------------- readers: handshake acts under fragmentation
	cfgs := []hsCase{
		{cMin: 0, cMax: 0, sMin: 0, sMax: 0, payload: 7},
		{cMin: 2, cMax: 2, sMin: 2, sMax: 2, payload: 7},
		{kk: true, cMin: 2, cMax: 2, sMin: 2, sMax: 2, payload: 7},
	}
	type hjob struct {
		c     hsCase
		label string
		o     hsOpts
		class string
	}
	var hjobs []hjob
	for _, c := range cfgs {
		ini, rsp := c.parties()
		ri, rr, _, err := runHandshake(ini, rsp, hsOpts{})
		if err != nil || !ri.completed || !rr.completed {
			r.Violation("baseline-fails", fmt.Sprintf("%v does not complete unfragmented", c), c.String())
			continue
		}
		type act struct {
			dir string
			idx int
			b   []byte
		}
		acts := []act{{"i2r", 0, ri.wrote[0]}, {"r2i", 0, rr.wrote[0]}}
		if !c.kk {
			acts = append(acts, act{"i2r", 1, ri.wrote[1]})
		}
		longest := 0
		for _, a := range acts {
			if len(a.b) > longest {
				longest = len(a.b)
			}
		}
		// uniform max-read k for every k
		for k := 1; k <= longest; k++ {
			hjobs = append(hjobs, hjob{c, fmt.Sprintf("every Read returns at most %d bytes", k),
				hsOpts{maxReadI: k, maxReadR: k}, "uniform"})
		}
		for ai, a := range acts {
			mk := func(cuts []int) hsOpts {
				o := hsOpts{}
				if a.dir == "i2r" {
					o.editI2R = cutter(a.idx, cuts)
				} else {
					o.editR2I = cutter(a.idx, cuts)
				}
				return o
			}
			n := len(a.b)
			// every two-way cut
			for c1 := 1; c1 < n; c1++ {
				hjobs = append(hjobs, hjob{c, fmt.Sprintf("act %d (%d bytes) delivered in pieces cut at %d", ai+1, n, c1), mk([]int{c1}), "cut2"})
			}
			// three-way cuts: all pairs for short acts, all pairs of
			// interesting offsets for long ones
			offs := interestingOffsets(n, []int{1, 34, 50, 83, 99, n - 16, n - 32})
			if n <= 120 || r.Thorough() && n <= 200 {
				offs = nil
				for o := 1; o < n; o++ {
					offs = append(offs, o)
				}
			}
			for x := 0; x < len(offs); x++ {
				for y := x + 1; y < len(offs); y++ {
					hjobs = append(hjobs, hjob{c, fmt.Sprintf("act %d (%d bytes) delivered in pieces cut at %d and %d", ai+1, n, offs[x], offs[y]),
						mk([]int{offs[x], offs[y]}), "cut3"})
				}
			}
		}
	}
	parallel(len(hjobs), func(i int) {
		j := hjobs[i]
		ini, rsp := j.c.parties()
		ri, rr, _, err := runHandshake(ini, rsp, j.o)
		atomic.AddInt64(&evals, 1)
		if err != nil {
			r.Violation("hs/hang", j.label+": "+err.Error(), j.label)
			return
		}
		pat := "XX"
		if j.c.kk {
			pat = "KK"
		}
		if !ri.completed || !rr.completed {
			note("handshake-fragmented-fails")
			r.Violation(fmt.Sprintf("handshake-depends-on-fragmentation/%s/%s", pat, j.class),
				fmt.Sprintf("%v, %s: a valid handshake fails (initiator err=%v, responder err=%v); unfragmented it completes",
					j.c, j.label, ri.err, rr.err), map[string]any{"case": j.c.String(), "fragmentation": j.label})
			return
		}
		if d := compareViews(j.c, ri, rr); len(d) > 0 {
			r.Violation("handshake-fragmented-differs/"+pat, fmt.Sprintf("%v, %s: views differ %v", j.c, j.label, d), j.label)
			return
		}
		atomic.AddInt64(&nontrivial, 1)
		note("handshake-fragmented-ok")
	})
	if len(hjobs) > 0 {
		r.Sample(map[string]any{"kind": "handshake", "case": hjobs[len(hjobs)/2].c.String(), "fragmentation": hjobs[len(hjobs)/2].label})
	}

	// ---------------- readers: coalescing. On a stream transport the last
	// act a side reads can arrive in the same read as the peer's first
	// record; the handshake must consume exactly its own bytes.
	for _, c := range cfgs {
		c := c
		for _, msgLen := range []int{0, 5, 300} {
			atomic.AddInt64(&evals, 1)
			label := fmt.Sprintf("%v: the last handshake act and the following %d-byte record delivered in one piece", c, msgLen)
			ini, rsp := c.parties()
			ri, rr := &partyResult{}, &partyResult{}
			ri.connData, rr.connData = ini.connData(ri), rsp.connData(rr)
			mk := func(p party, res *partyResult, initiator bool) *mailbox.Machine {
				m, err := mailbox.NewBrontideMachine(&mailbox.BrontideMachineConfig{
					ConnData: res.connData, Initiator: initiator, HandshakePattern: p.pattern(),
					MinHandshakeVersion: p.min, MaxHandshakeVersion: p.max, EphemeralGen: ephGen(p.ephTag),
				})
				if err != nil {
					ev.Framework("%v", err)
				}
				return m
			}
			mi, mr := mk(ini, ri, true), mk(rsp, rr, false)
			d := newDuplex()
			// the side that writes the last act also writes the record
			lastWriter, lastReader := mi, mr
			wSide, rSide := d.I, d.R
			p := d.i2r
			lastIdx := 1 // XX: act three is the initiator's second write
			if c.kk {
				lastWriter, lastReader, wSide, rSide, p, lastIdx = mr, mi, d.R, d.I, d.r2i, 0
			}
			var held []byte
			p.edit = func(idx int, ch []byte) ([][]byte, bool) {
				switch {
				case idx < lastIdx:
					return [][]byte{ch}, false
				case idx < lastIdx+2: // the act, then the record header
					held = append(held, ch...)
					return nil, false
				default: // the record body: deliver everything at once
					all := append(append([]byte{}, held...), ch...)
					return [][]byte{all}, false
				}
			}
			msg := authPayload(msgLen)
			if msg == nil {
				msg = []byte{}
			}
			type res struct {
				err error
				got []byte
			}
			wc, rc := make(chan res, 1), make(chan res, 1)
			go func() {
				if err := lastWriter.DoHandshake(wSide); err != nil {
					wSide.Close()
					wc <- res{err: err}
					return
				}
				if err := lastWriter.WriteMessage(msg); err != nil {
					wc <- res{err: err}
					return
				}
				_, err := lastWriter.Flush(wSide)
				wc <- res{err: err}
			}()
			go func() {
				if err := lastReader.DoHandshake(rSide); err != nil {
					rSide.Close()
					rc <- res{err: fmt.Errorf("handshake: %v", err)}
					return
				}
				got, err := lastReader.ReadMessage(rSide)
				rc <- res{err: err, got: got}
			}()
			var w, rd res
			select {
			case w = <-wc:
			case <-time.After(10 * time.Second):
				w.err = fmt.Errorf("writer did not finish")
			}
			select {
			case rd = <-rc:
			case <-time.After(3 * time.Second):
				rd.err = fmt.Errorf("the reader is still waiting for the record (its bytes were consumed by the handshake)")
				d.I.Close()
				d.R.Close()
			}
			pat := "XX"
			if c.kk {
				pat = "KK"
			}
			if w.err != nil || rd.err != nil || !bytes.Equal(rd.got, msg) {
				r.Violation("handshake-depends-on-fragmentation/"+pat+"/coalesced",
					fmt.Sprintf("%s: writer err=%v, reader err=%v, %d of %d record bytes read", label, w.err, rd.err, len(rd.got), len(msg)),
					map[string]any{"case": c.String(), "fragmentation": label})
				continue
			}
			atomic.AddInt64(&nontrivial, 1)
			note("handshake-coalesced-ok")
		}
	}
	r.Sample(map[string]any{"kind": "coalesced", "case": cfgs[0].String(), "delivery": "act three + record header + record body in one piece"})

	// ---------------- readers: records under fragmentation
	// (one fresh pair per pattern family: uniform k, 2-way, 3-way)
	recordFrag := func(n int, label string, maxRead int, cuts []int) {
		w, rd, err := pairOfMachines(cfgs[1])
		if err != nil {
			r.Violation("baseline-fails", err.Error(), label)
			return
		}
		msg := authPayload(n)
		if len(msg) == 0 {
			msg = []byte{}
		}
		p := newPipe()
		p.maxRead = maxRead
		if cuts != nil {
			// header and body are two writes of Flush; cut the
			// concatenation
			var rec bytes.Buffer
			_ = w.WriteMessage(msg)
			_, _ = w.Flush(&rec)
			p.edit = cutter(0, cuts)
			_, _ = p.Write(rec.Bytes())
		} else {
			_ = w.WriteMessage(msg)
			_, _ = w.Flush(p)
		}
		p.Close()
		// every other case: the transport reports the end of the stream
		// together with the last bytes it delivers
		p.eofWithData = (n+maxRead+len(cuts))%2 == 1
		if p.eofWithData {
			label += ", EOF reported with the last bytes"
		}
		got, err := rd.ReadMessage(p)
		atomic.AddInt64(&evals, 1)
		if err != nil || !bytes.Equal(got, msg) {
			r.Violation("record-depends-on-fragmentation", fmt.Sprintf("record of %d bytes, %s: ReadMessage -> %d bytes, err=%v", n, label, len(got), err), label)
			return
		}
		atomic.AddInt64(&nontrivial, 1)
		note("record-fragmented-ok")
	}
	type rjob struct {
		n       int
		label   string
		maxRead int
		cuts    []int
	}
	var rjobs []rjob
	for _, n := range []int{0, 1, 5, 100} {
		w := 18 + n + 16
		for k := 1; k <= w; k++ {
			rjobs = append(rjobs, rjob{n, fmt.Sprintf("every Read returns at most %d bytes", k), k, nil})
		}
		for c1 := 1; c1 < w; c1++ {
			rjobs = append(rjobs, rjob{n, fmt.Sprintf("cut at %d", c1), 0, []int{c1}})
			if n <= 5 || r.Thorough() {
				for c2 := c1 + 1; c2 < w; c2++ {
					rjobs = append(rjobs, rjob{n, fmt.Sprintf("cut at %d and %d", c1, c2), 0, []int{c1, c2}})
				}
			}
		}
	}
	parallel(len(rjobs), func(i int) { j := rjobs[i]; recordFrag(j.n, j.label, j.maxRead, j.cuts) })
	r.Sample(map[string]any{"kind": "record-read", "plaintext_len": 5, "fragmentation": "cut at 17 and 19"})

	// ---------------- writers: partial writes with timeouts
	type wjob struct {
		n       int
		budgets []int
	}
	var wjobs []wjob
	for _, n := range []int{0, 1, 5, 40} {
		w := 18 + n + 16
		for c1 := 0; c1 < w; c1++ {
			wjobs = append(wjobs, wjob{n, []int{c1}})
			for c2 := c1; c2 < w; c2++ {
				if c2-c1 >= 0 {
					wjobs = append(wjobs, wjob{n, []int{c1, c2 - c1}})
				}
			}
		}
	}
	parallel(len(wjobs), func(i int) {
		j := wjobs[i]
		w, rd, err := pairOfMachines(cfgs[1])
		if err != nil {
			r.Violation("baseline-fails", err.Error(), "writer")
			return
		}
		atomic.AddInt64(&evals, 1)
		msg := authPayload(j.n)
		if len(msg) == 0 {
			msg = []byte{}
		}
		label := fmt.Sprintf("record of %d plaintext bytes (%d on the wire), writer accepts %v bytes before each timeout", j.n, 18+j.n+16, j.budgets)
		fail := func(key, what string) {
			r.Violation("flush/"+key, label+": "+what, map[string]any{"plaintext_len": j.n, "budgets": j.budgets})
		}
		s := &sink{budgets: append([]int{}, j.budgets...)}
		if err := w.WriteMessage(msg); err != nil {
			fail("write-message", err.Error())
			return
		}
		total, timeouts := 0, 0
		for iter := 0; ; iter++ {
			if iter > 10 {
				fail("never-finishes", "Flush still returns a timeout after 10 calls")
				return
			}
			n, err := w.Flush(s)
			total += n
			if n < 0 {
				fail("negative-count", fmt.Sprintf("Flush returned %d", n))
				return
			}
			if err == nil {
				break
			}
			var te timeoutErr
			if !errors.As(err, &te) {
				fail("unexpected-error", err.Error())
				return
			}
			timeouts++
			h, b := w.VerifPending()
			if h+b == 0 {
				fail("timeout-with-nothing-pending", "Flush returned a timeout but nothing is pending")
				return
			}
			if err2 := w.WriteMessage([]byte("next")); !errors.Is(err2, mailbox.ErrMessageNotFlushed) {
				fail("new-record-while-pending", fmt.Sprintf("WriteMessage returned %v while %d header and %d body bytes were pending", err2, h, b))
				return
			}
		}
		if h, b := w.VerifPending(); h+b != 0 {
			fail("pending-after-success", fmt.Sprintf("Flush returned nil with %d+%d bytes pending", h, b))
			return
		}
		if total != len(msg) {
			fail("count", fmt.Sprintf("the Flush calls reported %d plaintext bytes in total, the record has %d", total, len(msg)))
			return
		}
		if s.buf.Len() != 18+len(msg)+16 {
			fail("emitted-length", fmt.Sprintf("%d bytes emitted, the record is %d bytes", s.buf.Len(), 18+len(msg)+16))
			return
		}
		if err := w.WriteMessage([]byte("next")); err != nil {
			fail("write-after-flush", err.Error())
			return
		}
		if _, err := w.Flush(s); err != nil {
			fail("flush-after-flush", err.Error())
			return
		}
		// the peer decrypts the record and the one after it (a write
		// that was refused while the record was pending must not have
		// touched the cipher state)
		src := bytes.NewReader(s.buf.Bytes())
		got, err := rd.ReadMessage(src)
		if err != nil || !bytes.Equal(got, msg) {
			fail("emitted-bytes", fmt.Sprintf("the emitted bytes do not decrypt to the record: err=%v", err))
			return
		}
		got, err = rd.ReadMessage(src)
		if err != nil || string(got) != "next" {
			fail("next-record-unreadable", fmt.Sprintf("the record written after the flush does not decrypt at the peer: err=%v got=%q", err, got))
			return
		}
		if timeouts > 0 {
			atomic.AddInt64(&nontrivial, 1)
		}
		note(fmt.Sprintf("flush-ok/timeouts=%d", timeouts))
	})
	r.Sample(map[string]any{"kind": "partial-write", "plaintext_len": 5, "writer_accepts": []int{17, 3}})

	// ---------------- writers: writes of more than one record
	mc, mn := multiRecordWrites(r, r.Thorough())
	evals += mc
	nontrivial += mn
	r.Set("multi_record_write_scripts", mc)
	gc, gn := grpcWriteRetries(r)
	evals += gc
	nontrivial += gn
	r.Set("grpc_write_retry_scripts", gc)
	r.Sample(map[string]any{"kind": "multi-record-write", "write_len": 65575, "timeouts_at_wire_offsets": []int{65569 + 18 + 20}})

	r.Set("evaluations", evals)
	r.Set("distinct_nontrivial", nontrivial)
	r.Set("outcome_classes", classes)
	r.Set("handshake_fragmentations", len(hjobs))
	r.Set("record_fragmentations", len(rjobs))
	r.Set("partial_write_scripts", len(wjobs))
	r.Set("rule", "handshakes (XX v0, XX v2, KK) with the last act delivered coalesced with the following record (0/5/300 bytes), with every uniform maximal read size 1..longest act, every two-way cut of every act and every three-way cut (all pairs for acts <= 120 bytes, pairs of field-boundary offsets and every 37th offset for longer ones); records of 0,1,5,100 bytes read under every uniform read size and every two-way (three-way for <= 5 bytes) cut; every two- and three-way partition of the wire bytes of records of 0,1,5,40 bytes into partial writes separated by timeout errors, with Flush repeated and WriteMessage attempted in between; NoiseConn.Write of 65536 / 65575 (thorough also 131070 / 131077) bytes with the transport timing out at one or two of ten offsets per record (start, inside and end of header, body, MAC), the caller repeating Flush and continuing at the reported offset: the reported counts add up to the length and the peer decrypts exactly what was written. distinct_nontrivial = fragmented cases that behaved identically to the unfragmented run")
	r.Set("exhaustive", true)
	exitCode = r.Finish()
}
