package noiseh

import (
	"bytes"
	"crypto/sha512"
	"fmt"
	"os"
	"sync/atomic"
	"testing"

	"github.com/btcsuite/btcd/btcec/v2"
	"github.com/lightningnetwork/lnd/aezeed"

	"github.com/lightninglabs/lightning-node-connect/mailbox"

	"verif/lib/ev"
)

func ent14(i int) [mailbox.NumPassphraseEntropyBytes]byte {
	var e [mailbox.NumPassphraseEntropyBytes]byte
	copy(e[:], entropy(i))
	return e
}

func TestC17(t *testing.T) {
	if !want(t, "C17") {
		return
	}
	r := ev.StartPart("C17", "exploration", os.Getenv("VERIF_PART"))
	var evals, nontrivial int64
	seenIDs := map[[64]byte]string{}

	checkEntropy := func(e [mailbox.NumPassphraseEntropyBytes]byte, label string) {
		atomic.AddInt64(&evals, 1)
		words, err := mailbox.PassphraseEntropyToMnemonic(e)
		if err != nil {
			r.Violation("codec/encode-error", fmt.Sprintf("%s: %v", label, err), label)
			return
		}
		back := mailbox.PassphraseMnemonicToEntropy(words)
		want := e
		want[13] &= 0xfc
		if back != want {
			r.Violation("codec/entropy-roundtrip", fmt.Sprintf("%s: entropy %x -> %v -> %x (expected %x: top 110 bits kept, last 2 bits zero)", label, e, words, back, want), label)
			return
		}
		words2, _ := mailbox.PassphraseEntropyToMnemonic(back)
		if words2 != words {
			r.Violation("codec/phrase-roundtrip", fmt.Sprintf("%s: %v -> %x -> %v", label, words, back, words2), label)
			return
		}
		atomic.AddInt64(&nontrivial, 1)
	}
	checkPhrase := func(w [mailbox.NumPassphraseWords]string, label string) {
		atomic.AddInt64(&evals, 1)
		e := mailbox.PassphraseMnemonicToEntropy(w)
		if e[13]&0x03 != 0 {
			r.Violation("codec/low-bits", fmt.Sprintf("%s: decoded entropy %x has non-zero insignificant bits", label, e), label)
			return
		}
		w2, err := mailbox.PassphraseEntropyToMnemonic(e)
		if err != nil || w2 != w {
			r.Violation("codec/phrase-roundtrip", fmt.Sprintf("%s: phrase %v -> %x -> %v (err %v)", label, w, e, w2, err), label)
			return
		}
		atomic.AddInt64(&nontrivial, 1)
	}

	// every single-bit flip of the 112 bits of 4 base entropies
	for b := 0; b < 4; b++ {
		base := ent14(b)
		checkEntropy(base, fmt.Sprintf("base entropy %d", b))
		for bit := 0; bit < 112; bit++ {
			e := base
			e[bit/8] ^= 1 << (7 - bit%8)
			checkEntropy(e, fmt.Sprintf("base entropy %d with bit %d flipped", b, bit))
		}
		// every value of every word position
		words, _ := mailbox.PassphraseEntropyToMnemonic(base)
		for pos := 0; pos < mailbox.NumPassphraseWords; pos++ {
			for v := 0; v < len(aezeed.DefaultWordList); v++ {
				w := words
				w[pos] = aezeed.DefaultWordList[v]
				checkPhrase(w, fmt.Sprintf("base phrase %d with word %d = #%d", b, pos, v))
			}
		}
	}
	// extremes
	var zero, ones [mailbox.NumPassphraseEntropyBytes]byte
	for i := range ones {
		ones[i] = 0xff
	}
	checkEntropy(zero, "all-zero entropy")
	checkEntropy(ones, "all-one entropy")
	// every pair of values of each adjacent word pair (thorough)
	if r.Thorough() {
		base := ent14(0)
		words, _ := mailbox.PassphraseEntropyToMnemonic(base)
		n := len(aezeed.DefaultWordList)
		parallel(9*n, func(i int) {
			pos, v1 := i/n, i%n
			for v2 := 0; v2 < n; v2++ {
				w := words
				w[pos], w[pos+1] = aezeed.DefaultWordList[v1], aezeed.DefaultWordList[v2]
				checkPhrase(w, fmt.Sprintf("words %d,%d = #%d,#%d", pos, pos+1, v1, v2))
			}
		})
	}
	// what the server generates is what a client typing the words derives
	for i := 0; i < 64; i++ {
		words, e, err := mailbox.NewPassphraseEntropy()
		atomic.AddInt64(&evals, 1)
		if err != nil {
			r.Violation("codec/new-entropy-error", err.Error(), "NewPassphraseEntropy")
			continue
		}
		if got := mailbox.PassphraseMnemonicToEntropy(words); got != e {
			r.Violation("codec/new-entropy-mismatch", fmt.Sprintf("NewPassphraseEntropy returned words %v and entropy %x, the words decode to %x", words, e, got), "NewPassphraseEntropy")
		}
	}
	r.Sample(map[string]any{"kind": "codec", "case": "base entropy 1 with bit 109 flipped"})

	// ---- session identifiers
	sidOf := func(local int, remote int, secret []byte) [64]byte {
		var rk *btcec.PublicKey
		if remote >= 0 {
			rk = staticKey(remote).PubKey()
		}
		cd := mailbox.NewConnData(ecdhKey(local), rk, secret, nil, nil, nil)
		sid, err := cd.SID()
		if err != nil {
			r.Violation("sid/error", err.Error(), "SID")
		}
		return sid
	}
	checkDirs := func(sid [64]byte, label string) {
		cRecv, cSend := mailbox.GetSID(sid, true), mailbox.GetSID(sid, false)
		sRecv, sSend := mailbox.GetSID(sid, false), mailbox.GetSID(sid, true)
		if cSend != sRecv || cRecv != sSend {
			r.Violation("sid/direction-mismatch", label+": client send/receive ids do not match server receive/send ids", label)
		}
		if cSend == cRecv {
			r.Violation("sid/directions-share-a-stream", label+": both directions use the same stream id", label)
		}
		if !bytes.Equal(cSend[:63], cRecv[:63]) || cSend[63]^cRecv[63] != 1 {
			r.Violation("sid/direction-bit", label+": the two stream ids differ in more than the direction bit", label)
		}
	}
	note := func(id [64]byte, label string) {
		for _, dir := range []bool{true, false} {
			k := mailbox.GetSID(id, dir)
			l := fmt.Sprintf("%s/dir=%v", label, dir)
			if prev, dup := seenIDs[k]; dup && prev != l {
				r.Violation("sid/collision", fmt.Sprintf("stream id of %s equals the one of %s", l, prev), l)
			}
			seenIDs[k] = l
		}
	}
	for s := 0; s < 4; s++ {
		sec := entropy(s)
		for a := 0; a < 8; a++ {
			for b := 0; b < 8; b++ {
				if a == b {
					continue
				}
				atomic.AddInt64(&evals, 1)
				// before pairing: both only know the passphrase
				c0, s0 := sidOf(a, -1, sec), sidOf(b, -1, sec)
				if c0 != s0 {
					r.Violation("sid/pre-pairing-mismatch", fmt.Sprintf("secret %d keys %d/%d: client and server derive different ids from the passphrase", s, a, b), "pre")
				}
				if want := sha512.Sum512(sec); c0 != want {
					r.Violation("sid/pre-pairing-value", "the pre-pairing id is not SHA-512 of the entropy", "pre")
				}
				checkDirs(c0, fmt.Sprintf("pre-pairing secret %d", s))
				// after pairing: static keys exchanged
				c1, s1 := sidOf(a, b, sec), sidOf(b, a, sec)
				if c1 != s1 {
					r.Violation("sid/post-pairing-mismatch", fmt.Sprintf("keys %d/%d: client and server derive different ids from the key exchange", a, b), "post")
				}
				if c1 == c0 {
					r.Violation("sid/post-equals-pre", fmt.Sprintf("keys %d/%d: the key-derived id equals the passphrase id", a, b), "post")
				}
				checkDirs(c1, fmt.Sprintf("post-pairing keys %d/%d", a, b))
				if s == 0 && a < b {
					note(c1, fmt.Sprintf("keys{%d,%d}", a, b))
				}
				atomic.AddInt64(&nontrivial, 1)
			}
		}
		note(sidOf(0, -1, sec), fmt.Sprintf("secret%d", s))
	}
	r.Sample(map[string]any{"kind": "sid", "case": "keys 3/5 secret 2: client(local 3, remote 5) vs server(local 5, remote 3)"})
	r.Set("evaluations", evals)
	r.Set("distinct_nontrivial", nontrivial)
	r.Set("distinct_stream_ids", len(seenIDs))
	r.Set("rule", "codec: 4 base entropies, every single-bit flip of the 112 bits, every value (2048) of every word position (10) of the 4 base phrases, all-zero / all-one entropies, 64 outputs of NewPassphraseEntropy; thorough: every pair of values of each adjacent word pair of one phrase (9 x 2048^2). SID: all ordered pairs of 8 static keys x 4 secrets, before pairing (passphrase) and after (ECDH) on both sides, direction flags, pairwise distinctness. The 2^110 entropy domain is covered position-wise (the codec is an 11-bit-per-word bit stream), not in full")
	r.Set("exhaustive", true)
	exitCode = r.Finish()
}
