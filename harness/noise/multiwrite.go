package noiseh

import (
	"bytes"
	"errors"
	"fmt"
	"sync/atomic"

	"github.com/lightninglabs/lightning-node-connect/mailbox"

	"verif/lib/ev"
)

// sinkConn is a net.Conn whose writes go to a scripted partial-write sink.
type sinkConn struct {
	*side
	s *sink
}

func (c *sinkConn) Write(p []byte) (int, error) { return c.s.Write(p) }

// multiRecordWrites: NoiseConn.Write of more than one record (it chunks
// into 65535-byte records) over a transport that accepts only part of the
// bytes and times out, at every interesting cut of every record on the wire
// (and every pair of such cuts). The caller does what the contract
// prescribes: on a timeout it repeats Flush until the pending record is out,
// adding up the reported counts, then continues with Write(b[reported:]).
// Oracle: the reported counts add up to len(b) and the peer decrypts exactly
// b — a count that is too low makes the caller repeat bytes, one that is too
// high makes it skip some.
func multiRecordWrites(r *ev.Run, thorough bool) (cases, nontrivial int64) {
	const rec = 65535
	type job struct {
		size int
		cuts []int // absolute wire offsets at which the sink times out
	}
	var jobs []job
	sizes := []int{rec + 1, rec + 40}
	if thorough {
		sizes = append(sizes, 2*rec, 2*rec+7)
	}
	for _, size := range sizes {
		var marks []int
		off := 0
		for left := size; left > 0; {
			n := left
			if n > rec {
				n = rec
			}
			w := 18 + n + 16
			for _, m := range []int{0, 1, 17, 18, 19, 18 + n/2, 18 + n - 1, 18 + n, 18 + n + 1, 18 + n + 15} {
				if m < w && (len(marks) == 0 || off+m > marks[len(marks)-1]) {
					marks = append(marks, off+m)
				}
			}
			off += w
			left -= n
		}
		jobs = append(jobs, job{size, nil})
		for i, a := range marks {
			jobs = append(jobs, job{size, []int{a}})
			for _, b := range marks[i:] {
				jobs = append(jobs, job{size, []int{a, b}})
			}
		}
	}
	parallel(len(jobs), func(i int) {
		j := jobs[i]
		atomic.AddInt64(&cases, 1)
		w, rd, err := pairOfMachines(hsCase{cMin: 2, cMax: 2, sMin: 2, sMax: 2, payload: 7})
		if err != nil {
			r.Violation("baseline-fails", err.Error(), "multi-record write")
			return
		}
		b := make([]byte, j.size)
		for k := range b {
			b[k] = byte(k*7 + k>>8)
		}
		// budgets are relative: bytes accepted before each timeout
		var budgets []int
		prev := 0
		for _, c := range j.cuts {
			budgets = append(budgets, c-prev)
			prev = c
		}
		s := &sink{budgets: budgets}
		c := mailbox.VerifNewNoiseConn(&sinkConn{side: &side{in: newPipe(), out: newPipe(), name: "writer"}, s: s}, w)
		label := fmt.Sprintf("NoiseConn.Write of %d bytes, transport times out at wire offsets %v", j.size, j.cuts)
		ctx := map[string]any{"write_len": j.size, "timeouts_at_wire_offsets": j.cuts}
		fail := func(key, what string) { r.Violation("multi-record-write/"+key, label+": "+what, ctx) }
		reported, timeouts := 0, 0
		n, err := c.Write(b)
		reported += n
		for iter := 0; err != nil; iter++ {
			var te timeoutErr
			if !errors.As(err, &te) {
				fail("unexpected-error", err.Error())
				return
			}
			if iter > 8 {
				fail("never-finishes", "still timing out after 8 rounds")
				return
			}
			timeouts++
			for k := 0; ; k++ {
				n, err = c.Flush()
				reported += n
				if err == nil {
					break
				}
				if !errors.As(err, &te) || k > 8 {
					fail("flush-error", err.Error())
					return
				}
				timeouts++
			}
			if reported > len(b) {
				fail("count-too-high", fmt.Sprintf("%d bytes reported as written so far, the buffer has %d", reported, len(b)))
				return
			}
			if reported == len(b) {
				break
			}
			n, err = c.Write(b[reported:])
			reported += n
		}
		if reported != len(b) {
			fail("count", fmt.Sprintf("the calls reported %d bytes in total, %d were written", reported, len(b)))
			return
		}
		var got []byte
		src := bytes.NewReader(s.buf.Bytes())
		for src.Len() > 0 {
			m, err := rd.ReadMessage(src)
			if err != nil {
				fail("peer-cannot-read", fmt.Sprintf("after %d bytes: %v", len(got), err))
				return
			}
			got = append(got, m...)
		}
		if !bytes.Equal(got, b) {
			fail("stream-differs", fmt.Sprintf("the peer decrypts %d bytes, %d were written (first difference at %d)", len(got), len(b), firstDiff(got, b)))
			return
		}
		if timeouts > 0 {
			atomic.AddInt64(&nontrivial, 1)
		}
	})
	return
}

// grpcWriteRetries: NoiseGrpcConn.Write (through the real handshake entry
// points) over a transport that accepts only part of a record and times out,
// at every cut of the record on the wire. The caller does what a net.Conn
// user does: after (n, timeout) it carries on with b[n:]; any other error
// ends the connection for it. Oracle: what the peer reads is a prefix of b -
// a retried write must not put bytes on the stream a second time - and when
// no call reported any error, it is all of b.
func grpcWriteRetries(r *ev.Run) (cases, nontrivial int64) {
	type job struct {
		n    int
		cuts []int
	}
	var jobs []job
	for _, n := range []int{1, 5, 40} {
		w := 18 + n + 16
		jobs = append(jobs, job{n, nil})
		for c1 := 0; c1 < w; c1++ {
			jobs = append(jobs, job{n, []int{c1}})
		}
		for c1 := 0; c1 < w; c1 += 5 {
			for c2 := c1; c2 < w; c2 += 7 {
				jobs = append(jobs, job{n, []int{c1, c2 - c1}})
			}
		}
	}
	parallel(len(jobs), func(i int) {
		j := jobs[i]
		atomic.AddInt64(&cases, 1)
		p, err := newGrpcPair(hsCase{cMin: 2, cMax: 2, sMin: 2, sMax: 2, payload: 7})
		if err != nil {
			r.Violation("baseline-fails", err.Error(), "grpc write retry")
			return
		}
		b := make([]byte, j.n)
		for k := range b {
			b[k] = byte('a' + k%26)
		}
		label := fmt.Sprintf("NoiseGrpcConn.Write of %d bytes, the transport accepts %v bytes before each timeout, the caller continues with b[n:]", j.n, j.cuts)
		ctx := map[string]any{"write_len": j.n, "accepted_before_timeouts": j.cuts}
		fail := func(key, what string) { r.Violation("grpc-write-retry/"+key, label+": "+what, ctx) }
		p.d.i2r.mu.Lock()
		p.d.i2r.partial = append([]int{}, j.cuts...)
		p.d.i2r.mu.Unlock()
		reported, timeouts, gaveUp := 0, 0, ""
		for iter := 0; reported < len(b) && iter < 6; iter++ {
			n, err := p.A.Write(b[reported:])
			if n < 0 || n > len(b)-reported {
				fail("count-out-of-range", fmt.Sprintf("Write returned n=%d for %d bytes", n, len(b)-reported))
				return
			}
			reported += n
			if err == nil {
				continue
			}
			var te timeoutErr
			if !errors.As(err, &te) {
				// a hard error: the connection is over for this caller
				gaveUp = err.Error()
				break
			}
			timeouts++
		}
		p.closeWrite("a2b")
		var got []byte
		buf := make([]byte, 70000)
		for {
			n, err := p.B.Read(buf)
			got = append(got, buf[:n]...)
			if err != nil {
				break
			}
		}
		if !bytes.HasPrefix(b, got) {
			fail("stream-bytes-added", fmt.Sprintf("the peer read %d bytes %q, which is not a prefix of the %d bytes written (%d reported as written, %d timeouts, caller gave up: %q)",
				len(got), trunc16(got), len(b), reported, timeouts, gaveUp))
			return
		}
		// (NoiseGrpcConn has no Flush of its own: after a timeout the rest
		// of the pending record only goes out with a later call, so only a
		// run without any error must deliver everything.)
		if gaveUp == "" && timeouts == 0 && len(got) != len(b) {
			fail("stream-bytes-lost", fmt.Sprintf("no call reported an error (%d bytes reported) but the peer read %d bytes", reported, len(got)))
			return
		}
		if timeouts > 0 {
			atomic.AddInt64(&nontrivial, 1)
		}
	})
	return
}
