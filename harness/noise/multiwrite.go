package noiseh

import (
	"bytes"
	"errors"
	"fmt"
	"sync/atomic"

	"github.com/lightninglabs/lightning-node-connect/mailbox"

	"verif/lib/ev"
)

// sinkConn is a net.Conn whose writes go to a scripted partial-write sink.
type sinkConn struct {
	*side
	s *sink
}

func (c *sinkConn) Write(p []byte) (int, error) { return c.s.Write(p) }

// multiRecordWrites: NoiseConn.Write of more than one record (it chunks
// into 65535-byte records) over a transport that accepts only part of the
// bytes and times out, at every interesting cut of every record on the wire
// (and every pair of such cuts). The caller does what the contract
// prescribes: on a timeout it repeats Flush until the pending record is out,
// adding up the reported counts, then continues with Write(b[reported:]).
// Oracle: the reported counts add up to len(b) and the peer decrypts exactly
// b — a count that is too low makes the caller repeat bytes, one that is too
// high makes it skip some.
func multiRecordWrites(r *ev.Run, thorough bool) (cases, nontrivial int64) {
	const rec = 65535
	type job struct {
		size int
		cuts []int // absolute wire offsets at which the sink times out
	}
	var jobs []job
	sizes := []int{rec + 1, rec + 40}
	if thorough {
		sizes = append(sizes, 2*rec, 2*rec+7)
	}
	for _, size := range sizes {
		var marks []int
		off := 0
		for left := size; left > 0; {
			n := left
			if n > rec {
				n = rec
			}
			w := 18 + n + 16
			for _, m := range []int{0, 1, 17, 18, 19, 18 + n/2, 18 + n - 1, 18 + n, 18 + n + 1, 18 + n + 15} {
				if m < w && (len(marks) == 0 || off+m > marks[len(marks)-1]) {
					marks = append(marks, off+m)
				}
			}
			off += w
			left -= n
		}
		jobs = append(jobs, job{size, nil})
		for i, a := range marks {
			jobs = append(jobs, job{size, []int{a}})
			for _, b := range marks[i:] {
				jobs = append(jobs, job{size, []int{a, b}})
			}
		}
	}
	parallel(len(jobs), func(i int) {
		j := jobs[i]
		atomic.AddInt64(&cases, 1)
		w, rd, err := pairOfMachines(hsCase{cMin: 2, cMax: 2, sMin: 2, sMax: 2, payload: 7})
		if err != nil {
			r.Violation("baseline-fails", err.Error(), "multi-record write")
			return
		}
		b := make([]byte, j.size)
		for k := range b {
			b[k] = byte(k*7 + k>>8)
		}
		// budgets are relative: bytes accepted before each timeout
		var budgets []int
		prev := 0
		for _, c := range j.cuts {
			budgets = append(budgets, c-prev)
			prev = c
		}
		s := &sink{budgets: budgets}
		c := mailbox.VerifNewNoiseConn(&sinkConn{side: &side{in: newPipe(), out: newPipe(), name: "writer"}, s: s}, w)
		label := fmt.Sprintf("NoiseConn.Write of %d bytes, transport times out at wire offsets %v", j.size, j.cuts)
		ctx := map[string]any{"write_len": j.size, "timeouts_at_wire_offsets": j.cuts}
		fail := func(key, what string) { r.Violation("multi-record-write/"+key, label+": "+what, ctx) }
		reported, timeouts := 0, 0
		n, err := c.Write(b)
		reported += n
		for iter := 0; err != nil; iter++ {
			var te timeoutErr
			if !errors.As(err, &te) {
				fail("unexpected-error", err.Error())
				return
			}
			if iter > 8 {
				fail("never-finishes", "still timing out after 8 rounds")
				return
			}
			timeouts++
			for k := 0; ; k++ {
				n, err = c.Flush()
				reported += n
				if err == nil {
					break
				}
				if !errors.As(err, &te) || k > 8 {
					fail("flush-error", err.Error())
					return
				}
				timeouts++
			}
			if reported > len(b) {
				fail("count-too-high", fmt.Sprintf("%d bytes reported as written so far, the buffer has %d", reported, len(b)))
				return
			}
			if reported == len(b) {
				break
			}
			n, err = c.Write(b[reported:])
			reported += n
		}
		if reported != len(b) {
			fail("count", fmt.Sprintf("the calls reported %d bytes in total, %d were written", reported, len(b)))
			return
		}
		var got []byte
		src := bytes.NewReader(s.buf.Bytes())
		for src.Len() > 0 {
			m, err := rd.ReadMessage(src)
			if err != nil {
				fail("peer-cannot-read", fmt.Sprintf("after %d bytes: %v", len(got), err))
				return
			}
			got = append(got, m...)
		}
		if !bytes.Equal(got, b) {
			fail("stream-differs", fmt.Sprintf("the peer decrypts %d bytes, %d were written (first difference at %d)", len(got), len(b), firstDiff(got, b)))
			return
		}
		if timeouts > 0 {
			atomic.AddInt64(&nontrivial, 1)
		}
	})
	return
}
