package noiseh

import (
	"bytes"
	"fmt"
	"sync"
	"sync/atomic"
	"testing"

	"github.com/lightninglabs/lightning-node-connect/mailbox"

	"verif/lib/ev"
)

// checkRejected evaluates the C03 oracle on a handshake attempt between
// parties that do not share the secret / the stored keys.
func checkRejected(r *ev.Run, label, keyClass string, ini, rsp party, ri, rr *partyResult, d *duplex) {
	ctx := map[string]any{"case": label}
	if ri.completed || rr.completed {
		who := "initiator"
		if rr.completed {
			who = "responder"
		}
		if ri.completed && rr.completed {
			who = "both"
		}
		r.Violation("mismatch-completes/"+keyClass+"/"+who,
			fmt.Sprintf("%s: %s completed the handshake although the parties do not share the secret/keys", label, who), ctx)
		return
	}
	if n := len(d.r2i.allWritten()); n != 0 {
		leak := ""
		if len(rsp.auth) >= 8 && bytes.Contains(d.r2i.allWritten(), rsp.auth[:8]) {
			leak = " (contains the auth payload in clear)"
		}
		r.Violation("responder-answers-mismatch/"+keyClass,
			fmt.Sprintf("%s: the responder wrote %d bytes before failing%s; it must abort before emitting any handshake response", label, n, leak), ctx)
	}
	for name, p := range map[string]*partyResult{"initiator": ri, "responder": rr} {
		if p.machine != nil && (p.machine.VerifSend().Ready || p.machine.VerifRecv().Ready) {
			r.Violation("keys-after-failure/"+keyClass+"/"+name,
				fmt.Sprintf("%s: %s holds traffic keys after a failed handshake", label, name), ctx)
		}
		if len(p.onAuth) != 0 || len(p.onRemote) != 0 {
			r.Violation("callbacks-after-failure/"+keyClass+"/"+name,
				fmt.Sprintf("%s: %s's callbacks were invoked (onAuthData %d, onRemoteStatic %d) although the handshake failed", label, name, len(p.onAuth), len(p.onRemote)), ctx)
		}
	}
	if a := ri.connData.AuthData(); a != nil {
		r.Violation("auth-data-after-failure/"+keyClass, fmt.Sprintf("%s: the initiator's AuthData() holds %d bytes after a failed handshake", label, len(a)), ctx)
	}
	if ini.remote < 0 && ri.connData.RemoteKey() != nil {
		r.Violation("remote-key-after-failure/"+keyClass, fmt.Sprintf("%s: the initiator stored a remote key after a failed handshake", label), ctx)
	}
}

func TestC03(t *testing.T) {
	if !want(t, "C03") {
		return
	}
	r := ev.Start("C03", "exploration")
	var evals, rejected, accepted int64
	var mu sync.Mutex
	classes := map[string]int{}

	type job struct {
		label, class string
		ini, rsp     party
		match        bool
		realScrypt   bool
	}
	var jobs []job
	vers := [][2]byte{{0, 2}, {0, 0}, {1, 1}, {2, 2}, {0, 1}, {1, 2}}
	sizes := []int{0, 1, 498, 70000}
	if !r.Thorough() {
		vers = vers[:3]
	}
	// XX: every single-bit difference of the 14-byte secret, some
	// multi-bit ones, for 3 base secrets.
	for base := 0; base < 3; base++ {
		p := entropy(base)
		var others [][]byte
		for bit := 0; bit < 112; bit++ {
			q := append([]byte{}, p...)
			q[bit/8] ^= 1 << (bit % 8)
			others = append(others, q)
		}
		for k := 0; k < 16; k++ {
			q := append([]byte{}, p...)
			for j := range q {
				q[j] ^= byte((k+1)*(j+3)) | 1
			}
			others = append(others, q)
		}
		others = append(others, entropy(base+1), p[:13], append(append([]byte{}, p...), 0))
		for vi, v := range vers {
			for si, size := range sizes {
				if (vi+si+base)%2 == 1 && !r.Thorough() && size != 498 {
					continue
				}
				if v[1] == 0 && size > 498 {
					continue
				}
				mk := func(sec []byte) (party, party) {
					return party{local: 1, remote: -1, secret: sec, min: v[0], max: v[1], ephTag: "i"},
						party{local: 2, remote: -1, secret: p, min: v[0], max: v[1], auth: authPayload(size), ephTag: "r"}
				}
				i0, r0 := mk(p)
				jobs = append(jobs, job{label: fmt.Sprintf("XX same secret #%d v%v payload=%d", base, v, size), ini: i0, rsp: r0, match: true})
				if vi == 0 && si == 2 || r.Thorough() {
					for oi, q := range others {
						ii, rr := mk(q)
						jobs = append(jobs, job{label: fmt.Sprintf("XX secret #%d vs variant %d v%v payload=%d", base, oi, v, size),
							class: "XX-secret", ini: ii, rsp: rr})
					}
				} else {
					for _, oi := range []int{0, 55, 111, 112} {
						ii, rr := mk(others[oi])
						jobs = append(jobs, job{label: fmt.Sprintf("XX secret #%d vs variant %d v%v payload=%d", base, oi, v, size),
							class: "XX-secret", ini: ii, rsp: rr})
					}
				}
			}
		}
	}
	// A few cases with the real scrypt cost.
	for k := 0; k < 4; k++ {
		p := entropy(k)
		q := append([]byte{}, p...)
		q[k] ^= 0x10
		jobs = append(jobs,
			job{label: fmt.Sprintf("XX same secret #%d real scrypt", k), realScrypt: true, match: true,
				ini: party{local: 1, remote: -1, secret: p, min: 0, max: 2, ephTag: "i"},
				rsp: party{local: 2, remote: -1, secret: p, min: 0, max: 2, auth: authPayload(100), ephTag: "r"}},
			job{label: fmt.Sprintf("XX wrong secret #%d real scrypt", k), realScrypt: true, class: "XX-secret",
				ini: party{local: 1, remote: -1, secret: q, min: 0, max: 2, ephTag: "i"},
				rsp: party{local: 2, remote: -1, secret: p, min: 0, max: 2, auth: authPayload(100), ephTag: "r"}})
	}
	// KK: every ordered pair of 4 static keys as (true initiator, true
	// responder), with each side expecting the right or a wrong key.
	for a := 0; a < 4; a++ {
		for b := 0; b < 4; b++ {
			if a == b {
				continue
			}
			for _, ie := range []int{b, (b + 1) % 4, (b + 2) % 4} {
				for _, re := range []int{a, (a + 1) % 4, (a + 3) % 4} {
					if ie == a || re == b {
						continue
					}
					match := ie == b && re == a
					cls := "KK-keys"
					jobs = append(jobs, job{
						label: fmt.Sprintf("KK initiator key %d expects %d, responder key %d expects %d", a, ie, b, re),
						class: cls, match: match,
						ini: party{local: a, remote: ie, min: 2, max: 2, ephTag: "i"},
						rsp: party{local: b, remote: re, min: 2, max: 2, auth: authPayload(64), ephTag: "r"},
					})
				}
			}
		}
	}

	// KK impostors: the initiator presents the public key the responder has
	// stored (a) but holds another private key (x); it knows the responder's
	// public key (b).
	for a := 0; a < 4; a++ {
		for b := 0; b < 4; b++ {
			for x := 4; x < 6; x++ {
				if a == b {
					continue
				}
				jobs = append(jobs, job{
					label: fmt.Sprintf("KK impostor: presents the public key of %d, holds the private key of %d, talks to responder %d", a, x, b),
					class: "KK-impostor",
					ini:   party{local: x, hasImpostor: true, impostorOf: a, remote: b, min: 2, max: 2, ephTag: "i"},
					rsp:   party{local: b, remote: a, min: 2, max: 2, auth: authPayload(64), ephTag: "r"},
				})
			}
		}
	}

	// real-scrypt jobs run first, sequentially (the cost parameter is a
	// package variable)
	runJob := func(j job) {
		ri, rr, d, err := runHandshake(j.ini, j.rsp, hsOpts{})
		atomic.AddInt64(&evals, 1)
		if err != nil {
			r.Violation("hs/hang", j.label+": "+err.Error(), j.label)
			return
		}
		if j.match {
			if !ri.completed || !rr.completed {
				r.Violation("match-fails", fmt.Sprintf("%s: parties share the secret/keys but initiator err=%v responder err=%v", j.label, ri.err, rr.err), j.label)
			} else if !bytes.Equal(ri.connData.AuthData(), j.rsp.auth) {
				r.Violation("match-wrong-payload", fmt.Sprintf("%s: completed but the initiator holds %d bytes of auth data, responder sent %d", j.label, len(ri.connData.AuthData()), len(j.rsp.auth)), j.label)
			}
			atomic.AddInt64(&accepted, 1)
			mu.Lock()
			classes["match-completes"]++
			mu.Unlock()
			return
		}
		checkRejected(r, j.label, j.class, j.ini, j.rsp, ri, rr, d)
		atomic.AddInt64(&rejected, 1)
		mu.Lock()
		classes["mismatch/"+j.class+"/ierr="+short(ri.err)+"/rerr="+short(rr.err)]++
		mu.Unlock()
	}
	var bulk []job
	old := mailbox.VerifSetScryptN(1 << 16)
	for _, j := range jobs {
		if j.realScrypt {
			runJob(j)
		} else {
			bulk = append(bulk, j)
		}
	}
	mailbox.VerifSetScryptN(old)
	parallel(len(bulk), func(i int) { runJob(bulk[i]) })

	// Histories: a process that sets up one handshake after another from the
	// same passphrase buffer, overwritten in place when the pairing phrase
	// changes (NewConnData keeps the caller's slice). What was derived for
	// the phrase the buffer held before must not admit anybody afterwards:
	// after every step, a party with the buffer's current contents pairs
	// with the buffer's owner, and a party with the previous contents is
	// rejected by the full rejection oracle. Both roles, 3 successive
	// phrases, sequential.
	for _, role := range []string{"responder", "initiator"} {
		buf := append([]byte{}, entropy(0)...)
		prev := []byte(nil)
		for step := 0; step < 3; step++ {
			copy(buf, entropy(step)) // in place
			cur := append([]byte{}, buf...)
			mk := func(peerSecret []byte) (party, party) {
				ini := party{local: 1, remote: -1, secret: peerSecret, min: 0, max: 2, ephTag: "i"}
				rsp := party{local: 2, remote: -1, secret: peerSecret, min: 0, max: 2, auth: authPayload(64), ephTag: "r"}
				if role == "responder" {
					rsp.secret = buf
				} else {
					ini.secret = buf
				}
				return ini, rsp
			}
			i1, r1 := mk(cur)
			runJob(job{label: fmt.Sprintf("history: %s's passphrase buffer rewritten in place, step %d, peer uses the current phrase", role, step), ini: i1, rsp: r1, match: true})
			if prev != nil {
				i2, r2 := mk(prev)
				runJob(job{label: fmt.Sprintf("history: %s's passphrase buffer rewritten in place, step %d, peer uses the previous phrase", role, step),
					class: "XX-secret-history", ini: i2, rsp: r2})
			}
			prev = cur
		}
	}

	r.Sample(map[string]any{"case": bulk[len(bulk)/2].label})
	r.Sample(map[string]any{"case": jobs[len(jobs)-1].label})
	r.Set("evaluations", evals)
	r.Set("distinct_nontrivial", rejected)
	r.Set("matching_handshakes_completed", accepted)
	r.Set("outcome_classes", classes)
	r.Set("rule", "XX: responder secret p against initiator secret p (must complete) and against p with every single bit 0..111 flipped, 16 multi-bit variants, another secret, a truncated and an extended one, for 3 base secrets, several version ranges and auth payload sizes {0,1,498,70000}; 8 cases at the real scrypt cost. KK: every ordered pair of 4 static keys with each side expecting the right key or one of two wrong ones. distinct_nontrivial = mismatching handshakes on which the rejection oracle (both fail, responder wrote 0 bytes, no keys, no callbacks, ConnData untouched) was evaluated")
	r.Set("exhaustive", true)
	r.Assume("scrypt cost lowered to N=16 except for the 8 real-cost cases; static keys from a fixed list of 4; ephemeral keys deterministic")
	exitCode = r.Finish()
}

func short(err error) string {
	if err == nil {
		return "nil"
	}
	s := err.Error()
	if len(s) > 40 {
		s = s[:40]
	}
	return s
}
