package noiseh

import (
	"bytes"
	"fmt"
	"strings"
	"sync"
	"sync/atomic"
	"testing"

	"verif/lib/ev"
)

type hsCase struct {
	kk                     bool
	cMin, cMax, sMin, sMax byte
	payload                int
}

func (c hsCase) String() string {
	pat := "XX"
	if c.kk {
		pat = "KK"
	}
	return fmt.Sprintf("%s c[%d,%d] s[%d,%d] payload=%d", pat, c.cMin, c.cMax, c.sMin, c.sMax, c.payload)
}

func (c hsCase) parties() (party, party) {
	ini := party{local: 1, remote: -1, secret: entropy(0), min: c.cMin, max: c.cMax, ephTag: "i"}
	rsp := party{local: 2, remote: -1, secret: entropy(0), min: c.sMin, max: c.sMax, auth: authPayload(c.payload), ephTag: "r"}
	if c.kk {
		ini.remote, rsp.remote = 2, 1
	}
	return ini, rsp
}

// expectComplete says whether an untampered handshake of this configuration
// must complete.
func (c hsCase) expectComplete() bool {
	if c.kk {
		return c.cMax >= 2 && c.sMax >= 2
	}
	if c.cMin > c.cMax || c.sMin > c.sMax {
		return false
	}
	if c.sMax == 0 && c.payload > 498 {
		// the fixed-size act two of version 0 cannot carry it
		return false
	}
	return c.cMin >= c.sMin && c.cMin <= c.sMax && c.sMax >= c.cMin && c.sMax <= c.cMax
}

// compareViews returns the list of fields in which the two completed parties
// disagree ("" if none).
func compareViews(c hsCase, ri, rr *partyResult) []string {
	vi, vr := viewOf(ri), viewOf(rr)
	var diff []string
	if vi.Version != vr.Version {
		diff = append(diff, fmt.Sprintf("version(i=%d,r=%d)", vi.Version, vr.Version))
	}
	if vi.Version == vr.Version {
		v := vi.Version
		cMin, sMin := c.cMin, c.sMin
		if c.kk {
			// KK raises the minimum to 2
			if cMin < 2 {
				cMin = 2
			}
			if sMin < 2 {
				sMin = 2
			}
		}
		if v < cMin || v > c.cMax || v < sMin || v > c.sMax {
			diff = append(diff, fmt.Sprintf("version-outside-range(v=%d)", v))
		}
	}
	if vi.SendKey != vr.RecvKey || vi.RecvKey != vr.SendKey {
		diff = append(diff, "traffic-keys")
	}
	if !bytes.Equal(vi.RemoteKey, staticKey(2).PubKey().SerializeCompressed()) {
		diff = append(diff, "initiator-sees-wrong-responder-key")
	}
	if !bytes.Equal(vr.RemoteKey, staticKey(1).PubKey().SerializeCompressed()) {
		diff = append(diff, "responder-sees-wrong-initiator-key")
	}
	if !bytes.Equal(vi.Auth, authPayload(c.payload)) {
		diff = append(diff, fmt.Sprintf("auth-payload(len i=%d,r=%d)", len(vi.Auth), c.payload))
	}
	if !c.kk {
		// XX: the peer key is stored (and the rendezvous moves) iff
		// version >= 2; both must do the same.
		if (vi.StoredKey != nil) != (vr.StoredKey != nil) {
			diff = append(diff, fmt.Sprintf("stored-remote-key(i=%v,r=%v)", vi.StoredKey != nil, vr.StoredKey != nil))
		}
	}
	// (How often the onAuthData callback fires is not part of the
	// property: what the initiator holds is. That a payload held from an
	// earlier handshake is replaced is checked by the reconnect cases.)
	return diff
}

func allConfigs() []hsCase {
	var out []hsCase
	for _, kk := range []bool{false, true} {
		for cMin := byte(0); cMin <= 2; cMin++ {
			for cMax := byte(0); cMax <= 2; cMax++ {
				for sMin := byte(0); sMin <= 2; sMin++ {
					for sMax := byte(0); sMax <= 2; sMax++ {
						out = append(out, hsCase{kk: kk, cMin: cMin, cMax: cMax, sMin: sMin, sMax: sMax})
					}
				}
			}
		}
	}
	return out
}

func TestC04(t *testing.T) {
	if !want(t, "C04") {
		return
	}
	r := ev.Start("C04", "fault_enumeration")
	var evals, bothComplete, tamperedBothComplete int64
	var mu sync.Mutex
	classes := map[string]int{}
	note := func(c string) { mu.Lock(); classes[c]++; mu.Unlock() }

	// vclass: "" or, for edits of version bytes only, which acts were edited
	// ("mitm-version-bytes/acts=2+3"), so that the class of a finding names
	// the exact manipulation.
	check := func(c hsCase, o hsOpts, tamper string, vclass string) {
		ini, rsp := c.parties()
		ri, rr, _, err := runHandshake(ini, rsp, o)
		atomic.AddInt64(&evals, 1)
		if err != nil {
			r.Violation("hs/hang", fmt.Sprintf("%v tamper=%s: %v", c, tamper, err), map[string]any{"case": c.String(), "tamper": tamper})
			return
		}
		for _, p := range []*partyResult{ri, rr} {
			if p.panicked != "" {
				// panics are C07's; here the side simply failed
				note("panic")
			}
		}
		switch {
		case ri.completed && rr.completed:
			atomic.AddInt64(&bothComplete, 1)
			if tamper != "" {
				atomic.AddInt64(&tamperedBothComplete, 1)
			}
			diff := compareViews(c, ri, rr)
			if len(diff) == 0 {
				note("both-complete/agree")
				return
			}
			note("both-complete/DIFFER")
			cls := "untampered"
			if tamper != "" {
				cls = "mitm-other"
				if vclass != "" {
					cls = vclass
				}
			}
			fields := ""
			for _, d := range diff {
				f := d
				if i := bytes.IndexByte([]byte(f), '('); i > 0 {
					f = f[:i]
				}
				fields += "+" + f
			}
			pat := "XX"
			if c.kk {
				pat = "KK"
			}
			r.Violation(fmt.Sprintf("views-differ/%s/%s/%s", pat, cls, fields[1:]),
				fmt.Sprintf("%v tamper=[%s]: both parties completed the handshake with different views: %v", c, tamper, diff),
				map[string]any{"case": c.String(), "tamper": tamper, "differences": diff})
		case ri.completed != rr.completed:
			note("one-side-complete")
		default:
			note("both-fail")
		}
		if tamper == "" {
			if c.expectComplete() && !(ri.completed && rr.completed) {
				r.Violation("untampered-compatible-fails",
					fmt.Sprintf("%v: compatible version ranges, no tampering, but initiator err=%v responder err=%v", c, ri.err, rr.err),
					map[string]any{"case": c.String()})
			}
		}
	}

	// Part A: every configuration x payload size, untouched.
	sizes := []int{0, 1, 498, 499, 600, 65535, 65536}
	if r.Thorough() {
		sizes = append(sizes, 2<<20)
	}
	var partA []hsCase
	for _, c := range allConfigs() {
		for _, s := range sizes {
			c.payload = s
			partA = append(partA, c)
		}
	}
	parallel(len(partA), func(i int) { check(partA[i], hsOpts{}, "", "") })
	r.Sample(map[string]any{"part": "A", "case": partA[len(partA)/3].String(), "tamper": "none"})

	// Part A2: reconnects. The same client (same ConnData) completes a
	// second handshake with a server whose auth payload has changed (grown,
	// shrunk, become empty, same length but other bytes): afterwards it
	// holds exactly the new payload. After a version-2 pairing the
	// reconnect is the KK handshake with the stored key.
	type rjob struct {
		v    byte
		a, b int
	}
	var rjobs []rjob
	for _, v := range []byte{0, 1, 2} {
		for _, ab := range [][2]int{{7, 0}, {0, 7}, {7, 9}, {600, 3}, {7, 7}, {3, 600}, {498, 0}} {
			a, b := ab[0], ab[1]
			if v == 0 {
				// version 0 carries at most 498 bytes
				if a > 498 {
					a = 498
				}
				if b > 498 {
					b = 498
				}
			}
			rjobs = append(rjobs, rjob{v, a, b})
		}
	}
	var reconnects int64
	parallel(len(rjobs), func(i int) {
		j := rjobs[i]
		atomic.AddInt64(&evals, 1)
		c := hsCase{cMin: j.v, cMax: j.v, sMin: j.v, sMax: j.v, payload: j.a}
		label := fmt.Sprintf("reconnect at version %d: first auth payload %d bytes, second %d bytes", j.v, j.a, j.b)
		ctx := map[string]any{"version": j.v, "first_payload": j.a, "second_payload": j.b}
		ini, rsp := c.parties()
		ri, rr, _, err := runHandshake(ini, rsp, hsOpts{})
		if err != nil || !ri.completed || !rr.completed {
			r.Violation("untampered-compatible-fails", fmt.Sprintf("%s: first handshake failed: %v / %v / %v", label, err, ri.err, rr.err), ctx)
			return
		}
		second := authPayload(j.b)
		for k := range second {
			second[k] ^= 0x5a
		}
		ini2, rsp2 := c.parties()
		rsp2.auth = second
		if j.v >= 2 {
			// paired: both sides use the stored keys
			ini2.remote, rsp2.remote = rsp.local, ini.local
		}
		ri2, rr2, _, err := runHandshake(ini2, rsp2, hsOpts{reuseI: ri.connData})
		if err != nil || !ri2.completed || !rr2.completed {
			r.Violation("reconnect-fails", fmt.Sprintf("%s: second handshake failed: %v / %v / %v", label, err, ri2.err, rr2.err), ctx)
			return
		}
		atomic.AddInt64(&reconnects, 1)
		if got := ri2.connData.AuthData(); !bytes.Equal(got, second) {
			r.Violation("views-differ/reconnect/auth-payload",
				fmt.Sprintf("%s: after the second handshake the initiator holds %d bytes (%x…) but the responder sent %d bytes", label, len(got), trunc16(got), len(second)), ctx)
			return
		}
		note("reconnect/agree")
	})
	r.Set("reconnect_cases", reconnects)

	// Part A3: the transport breaks under one side's write of one act. A
	// party whose handshake failed holds nothing of it: no traffic keys, no
	// stored peer key (it would otherwise move to the key-derived rendezvous
	// and the KK pattern on the strength of a handshake it never
	// completed, while the peer does not), no auth payload, no callbacks.
	type tfjob struct {
		c     hsCase
		side  string
		write int
	}
	var tfjobs []tfjob
	for _, c := range []hsCase{
		{cMin: 0, cMax: 0, sMin: 0, sMax: 0, payload: 7}, {cMin: 1, cMax: 1, sMin: 1, sMax: 1, payload: 7},
		{cMin: 2, cMax: 2, sMin: 2, sMax: 2, payload: 7}, {cMin: 0, cMax: 2, sMin: 0, sMax: 2, payload: 600},
		{kk: true, cMin: 2, cMax: 2, sMin: 2, sMax: 2, payload: 7},
	} {
		for _, side := range []string{"initiator", "responder"} {
			for w := 1; w <= 4; w++ {
				tfjobs = append(tfjobs, tfjob{c, side, w})
			}
		}
	}
	var brokenWrites int64
	parallel(len(tfjobs), func(i int) {
		j := tfjobs[i]
		atomic.AddInt64(&evals, 1)
		o := hsOpts{}
		if j.side == "initiator" {
			o.failWriteI = j.write
		} else {
			o.failWriteR = j.write
		}
		ini, rsp := j.c.parties()
		ri, rr, _, err := runHandshake(ini, rsp, o)
		label := fmt.Sprintf("%v, write #%d of the %s fails (transport broke)", j.c, j.write, j.side)
		ctx := map[string]any{"case": j.c.String(), "failing_side": j.side, "failing_write": j.write}
		if err != nil {
			r.Violation("hs/hang", label+": "+err.Error(), ctx)
			return
		}
		for name, p := range map[string]*partyResult{"initiator": ri, "responder": rr} {
			if p.completed || p.machine == nil {
				continue
			}
			atomic.AddInt64(&brokenWrites, 1)
			var kept []string
			if p.machine.VerifSend().Ready || p.machine.VerifRecv().Ready {
				kept = append(kept, "traffic keys")
			}
			if !j.c.kk && p.connData.RemoteKey() != nil {
				kept = append(kept, "the peer's static key (stored)")
			}
			if len(p.onRemote) != 0 {
				kept = append(kept, "onRemoteStatic was called")
			}
			if name == "initiator" && (p.connData.AuthData() != nil || len(p.onAuth) != 0) {
				kept = append(kept, "the auth payload")
			}
			if len(kept) > 0 {
				r.Violation("views-differ/failed-party-keeps-state/"+name,
					fmt.Sprintf("%s: the %s's handshake failed (%v) but it keeps: %v", label, name, p.err, kept), ctx)
				return
			}
		}
		if ri.completed && rr.completed {
			if diff := compareViews(j.c, ri, rr); len(diff) > 0 {
				r.Violation("views-differ/transport-failure", fmt.Sprintf("%s: both completed with different views %v", label, diff), ctx)
				return
			}
		}
		note("transport-failure/ok")
	})
	r.Set("transport_failure_cases", len(tfjobs))
	r.Set("failed_parties_checked", brokenWrites)

	// Part A4: what a party holds after a completed handshake is its own. A
	// later handshake of other parties in the same process (a server that
	// serves the next client, a client that dials another server) must not
	// change it: histories of two handshakes, run one after the other, over
	// every ordered pair of payload sizes on both sides of the 64 KiB record
	// limit; the first handshake's views are compared with deep copies taken
	// before the second one ran.
	hsizes := []int{0, 7, 600, 65535, 65536, 70000}
	if r.Thorough() {
		hsizes = append(hsizes, 2<<20)
	}
	var histories int64
	for _, v := range []byte{0, 1, 2} {
		for _, a := range hsizes {
			for _, b := range hsizes {
				if v == 0 && (a > 498 || b > 498) {
					continue
				}
				evals++
				histories++
				c1 := hsCase{cMin: v, cMax: v, sMin: v, sMax: v, payload: a}
				label := fmt.Sprintf("history at version %d: handshake with a %d byte auth payload, then a handshake of other parties with %d bytes", v, a, b)
				ctx := map[string]any{"version": v, "first_payload": a, "second_payload": b}
				ini, rsp := c1.parties()
				ri, rr, _, err := runHandshake(ini, rsp, hsOpts{})
				if err != nil || !ri.completed || !rr.completed {
					r.Violation("untampered-compatible-fails", fmt.Sprintf("%s: first handshake failed: %v / %v / %v", label, err, ri.err, rr.err), ctx)
					continue
				}
				vi, vr := viewOf(ri), viewOf(rr)
				vi.Auth = append([]byte(nil), vi.Auth...)
				vi.RemoteKey, vr.RemoteKey = append([]byte(nil), vi.RemoteKey...), append([]byte(nil), vr.RemoteKey...)
				second := authPayload(b)
				for k := range second {
					second[k] ^= 0xa5
				}
				ini2, rsp2 := c1.parties()
				ini2.local, rsp2.local, rsp2.auth = 3, 0, second
				ini2.ephTag, rsp2.ephTag = "i2", "r2"
				ri2, rr2, _, err := runHandshake(ini2, rsp2, hsOpts{})
				if err != nil || !ri2.completed || !rr2.completed {
					r.Violation("untampered-compatible-fails", fmt.Sprintf("%s: second handshake failed: %v / %v / %v", label, err, ri2.err, rr2.err), ctx)
					continue
				}
				if got := ri2.connData.AuthData(); !bytes.Equal(got, second) {
					r.Violation("views-differ/history/second-auth-payload",
						fmt.Sprintf("%s: the second initiator holds %d bytes (%x…), the responder sent %d bytes", label, len(got), trunc16(got), len(second)), ctx)
					continue
				}
				wi, wr := viewOf(ri), viewOf(rr)
				var changed []string
				if !bytes.Equal(wi.Auth, vi.Auth) || !bytes.Equal(wi.Auth, authPayload(a)) {
					changed = append(changed, fmt.Sprintf("the first initiator's auth payload (now %d bytes, %x…)", len(wi.Auth), trunc16(wi.Auth)))
				}
				if wi.SendKey != vi.SendKey || wi.RecvKey != vi.RecvKey || wr.SendKey != vr.SendKey || wr.RecvKey != vr.RecvKey {
					changed = append(changed, "traffic keys of the first handshake")
				}
				if !bytes.Equal(wi.RemoteKey, vi.RemoteKey) || !bytes.Equal(wr.RemoteKey, vr.RemoteKey) || wi.Version != vi.Version || wr.Version != vr.Version {
					changed = append(changed, "peer key or version of the first handshake")
				}
				if len(changed) > 0 {
					r.Violation("views-differ/history/later-handshake-changes-earlier-view",
						fmt.Sprintf("%s: after the second handshake the parties of the first one no longer hold what they held: %v", label, changed), ctx)
					continue
				}
				note("history/unchanged")
			}
		}
	}
	r.Set("history_cases", histories)

	// Part B1: every combination of version-byte substitutions (0..3 per
	// act) on every configuration.
	type vjob struct {
		c    hsCase
		subs []int // -1 = leave
	}
	var vjobs []vjob
	for _, c := range allConfigs() {
		c.payload = 5
		acts := 3
		if c.kk {
			acts = 2
		}
		n := 1
		for i := 0; i < acts; i++ {
			n *= 5
		}
		for code := 1; code < n; code++ {
			subs := make([]int, acts)
			x := code
			for i := range subs {
				subs[i] = x%5 - 1
				x /= 5
			}
			vjobs = append(vjobs, vjob{c, subs})
		}
	}
	parallel(len(vjobs), func(i int) {
		j := vjobs[i]
		subAt := func(act int, chunk []byte) []byte {
			if j.subs[act] < 0 || len(chunk) == 0 {
				return chunk
			}
			c := append([]byte{}, chunk...)
			c[0] = byte(j.subs[act])
			return c
		}
		o := hsOpts{
			editI2R: func(idx int, ch []byte) ([][]byte, bool) {
				act := 0
				if idx == 1 {
					act = 2
				}
				if act >= len(j.subs) {
					return [][]byte{ch}, false
				}
				return [][]byte{subAt(act, ch)}, false
			},
			editR2I: func(idx int, ch []byte) ([][]byte, bool) { return [][]byte{subAt(1, ch)}, false },
		}
		var edited []string
		for a, v := range j.subs {
			if v >= 0 {
				edited = append(edited, fmt.Sprint(a+1))
			}
		}
		check(j.c, o, fmt.Sprintf("version bytes of acts -> %v (-1 = untouched)", j.subs),
			"mitm-version-bytes/acts="+strings.Join(edited, "+"))
	})
	r.Sample(map[string]any{"part": "B1", "case": vjobs[len(vjobs)/2].c.String(), "tamper": fmt.Sprintf("version bytes -> %v", vjobs[len(vjobs)/2].subs)})

	// Part B2: every single-bit flip of every byte of every act on
	// representative configurations.
	reps := []hsCase{
		{cMin: 0, cMax: 0, sMin: 0, sMax: 0, payload: 5},
		{cMin: 0, cMax: 2, sMin: 0, sMax: 1, payload: 5},
		{cMin: 2, cMax: 2, sMin: 2, sMax: 2, payload: 5},
		{cMin: 0, cMax: 2, sMin: 0, sMax: 2, payload: 0},
		{kk: true, cMin: 2, cMax: 2, sMin: 2, sMax: 2, payload: 5},
		{kk: true, cMin: 0, cMax: 2, sMin: 0, sMax: 2, payload: 0},
	}
	if !r.Thorough() {
		reps = []hsCase{reps[1], reps[2], reps[4]}
	}
	type fjob struct {
		c        hsCase
		act, bit int
	}
	var fjobs []fjob
	for _, c := range reps {
		ini, rsp := c.parties()
		ri, rr, _, err := runHandshake(ini, rsp, hsOpts{})
		if err != nil || !ri.completed || !rr.completed {
			r.Violation("flip-baseline-fails", fmt.Sprintf("%v does not complete untampered", c), c.String())
			continue
		}
		acts := [][]byte{ri.wrote[0], rr.wrote[0]}
		if !c.kk {
			acts = append(acts, ri.wrote[1])
		}
		for a, b := range acts {
			for bit := 0; bit < len(b)*8; bit++ {
				fjobs = append(fjobs, fjob{c, a, bit})
			}
		}
	}
	parallel(len(fjobs), func(i int) {
		j := fjobs[i]
		flip := func(ch []byte) []byte {
			c := append([]byte{}, ch...)
			c[j.bit/8] ^= 1 << (j.bit % 8)
			return c
		}
		o := hsOpts{
			editI2R: func(idx int, ch []byte) ([][]byte, bool) {
				if (idx == 0 && j.act == 0) || (idx == 1 && j.act == 2) {
					return [][]byte{flip(ch)}, false
				}
				return [][]byte{ch}, false
			},
			editR2I: func(idx int, ch []byte) ([][]byte, bool) {
				if j.act == 1 {
					return [][]byte{flip(ch)}, false
				}
				return [][]byte{ch}, false
			},
		}
		vc := ""
		if j.bit/8 == 0 {
			vc = fmt.Sprintf("mitm-version-bytes/acts=%d", j.act+1)
		}
		check(j.c, o, fmt.Sprintf("flip bit %d of byte %d of act %d", j.bit%8, j.bit/8, j.act+1), vc)
	})
	if len(fjobs) > 0 {
		f := fjobs[len(fjobs)/2]
		r.Sample(map[string]any{"part": "B2", "case": f.c.String(), "tamper": fmt.Sprintf("flip bit %d of byte %d of act %d", f.bit%8, f.bit/8, f.act+1)})
	}

	r.Set("evaluations", evals)
	r.Set("distinct_nontrivial", bothComplete)
	r.Set("both_completed_under_tampering", tamperedBothComplete)
	r.Set("outcome_classes", classes)
	r.Set("version_substitution_cases", len(vjobs))
	r.Set("bit_flip_cases", len(fjobs))
	r.Set("rule", "A: all 162 (cMin,cMax,sMin,sMax) x pattern configurations x auth payload sizes {0,1,498,499,600,65535,65536 (+2MiB thorough)} untouched; B1: every combination of substituting the cleartext version byte of each act by 0..3 (or leaving it) on all 162 configurations; B2: every single-bit flip of every byte of every act on representative configurations. Both DoHandshake calls run on the real Machine over an in-memory duplex with a man in the middle. distinct_nontrivial = handshakes that both parties completed (the cases in which the agreement oracle is evaluated)")
	r.Set("exhaustive", true)
	r.Assume("scrypt cost lowered to N=16 for bulk enumeration (package variable; C03 runs cases at the real cost); ephemeral keys from a deterministic generator")
	exitCode = r.Finish()
}
