package noiseh

import (
	"os"
	"runtime"
	"sync"
	"sync/atomic"
	"testing"

	"github.com/lightninglabs/lightning-node-connect/mailbox"
)

var exitCode = 2

func TestMain(m *testing.M) {
	// Bulk enumeration lowers the scrypt cost (a package variable); the
	// derivation is otherwise the real one. C03 runs a few cases with the
	// real cost as well.
	mailbox.VerifSetScryptN(16)
	c := m.Run()
	if c != 0 && exitCode == 0 {
		exitCode = 2
	}
	os.Exit(exitCode)
}

func parallel(n int, f func(i int)) {
	w := runtime.NumCPU()
	var next int64 = -1
	var wg sync.WaitGroup
	for k := 0; k < w; k++ {
		wg.Add(1)
		go func() {
			defer wg.Done()
			for {
				i := int(atomic.AddInt64(&next, 1))
				if i >= n {
					return
				}
				f(i)
			}
		}()
	}
	wg.Wait()
}

func want(t *testing.T, prop string) bool {
	if os.Getenv("VERIF_PROP") != prop {
		t.Skip()
		return false
	}
	return true
}
