package noiseh

import (
	"bytes"
	"fmt"
	"io"
	"sync"
	"sync/atomic"
	"testing"

	"github.com/lightninglabs/lightning-node-connect/mailbox"

	"verif/lib/ev"
)

// edit is one manipulation of the list of wire records of one direction.
type edit struct {
	kind string // flip drop dup swap replay reflect trunc inject
	i, j int
	arg  int
}

func (e edit) String() string {
	switch e.kind {
	case "flip":
		return fmt.Sprintf("flip bit %d of byte %d of record %d", e.arg%8, e.arg/8, e.i)
	case "drop":
		return fmt.Sprintf("drop record %d", e.i)
	case "dup":
		return fmt.Sprintf("duplicate record %d", e.i)
	case "swap":
		return fmt.Sprintf("swap records %d and %d", e.i, e.i+1)
	case "replay":
		return fmt.Sprintf("replay record %d after record %d", e.i, e.j)
	case "reflect":
		return fmt.Sprintf("insert record %d of the opposite direction before record %d", e.j, e.i)
	case "trunc":
		return fmt.Sprintf("truncate the stream at byte %d", e.arg)
	case "inject":
		fill := "00"
		if e.j == 1 {
			fill = "ff"
		}
		return fmt.Sprintf("inject %d bytes of %s before record %d", e.arg, fill, e.i)
	case "injectmid":
		return fmt.Sprintf("inject %d bytes of ff between the header and the body of record %d", e.arg, e.i)
	case "dropheader":
		return fmt.Sprintf("drop the header of record %d (its body follows the previous record)", e.i)
	case "timeout":
		return fmt.Sprintf("delay the rest of the stream at byte %d until the reader's deadline has expired once (the read times out there, the reader tries again)", e.arg)
	}
	return e.kind
}

// apply returns the delivered records (as a flat list of byte strings).
func (e edit) apply(recs [][]byte, other [][]byte) [][]byte {
	cp := func(b []byte) []byte { return append([]byte{}, b...) }
	out := make([][]byte, 0, len(recs)+1)
	switch e.kind {
	case "timeout":
		// the bytes are untouched; the delay is applied by the reader's
		// transport (readAll)
		for _, rc := range recs {
			out = append(out, cp(rc))
		}
	case "flip":
		for k, rc := range recs {
			c := cp(rc)
			if k == e.i {
				c[e.arg/8] ^= 1 << (e.arg % 8)
			}
			out = append(out, c)
		}
	case "drop":
		for k, rc := range recs {
			if k != e.i {
				out = append(out, cp(rc))
			}
		}
	case "dup":
		for k, rc := range recs {
			out = append(out, cp(rc))
			if k == e.i {
				out = append(out, cp(rc))
			}
		}
	case "swap":
		for _, rc := range recs {
			out = append(out, cp(rc))
		}
		out[e.i], out[e.i+1] = out[e.i+1], out[e.i]
	case "replay":
		for k, rc := range recs {
			out = append(out, cp(rc))
			if k == e.j {
				out = append(out, cp(recs[e.i]))
			}
		}
	case "reflect":
		for k, rc := range recs {
			if k == e.i {
				out = append(out, cp(other[e.j%len(other)]))
			}
			out = append(out, cp(rc))
		}
		if e.i == len(recs) {
			out = append(out, cp(other[e.j%len(other)]))
		}
	case "trunc":
		all := bytes.Join(recs, nil)
		out = append(out, cp(all[:e.arg]))
	case "injectmid":
		for k, rc := range recs {
			if k == e.i {
				out = append(out, cp(rc[:18]), bytes.Repeat([]byte{0xff}, e.arg), cp(rc[18:]))
			} else {
				out = append(out, cp(rc))
			}
		}
	case "dropheader":
		for k, rc := range recs {
			if k == e.i {
				out = append(out, cp(rc[18:]))
			} else {
				out = append(out, cp(rc))
			}
		}
	case "inject":
		fill := byte(0)
		if e.j == 1 {
			fill = 0xff
		}
		for k, rc := range recs {
			if k == e.i {
				out = append(out, bytes.Repeat([]byte{fill}, e.arg))
			}
			out = append(out, cp(rc))
		}
		if e.i == len(recs) {
			out = append(out, bytes.Repeat([]byte{fill}, e.arg))
		}
	}
	return out
}

// streamSetup is a pair of machines after a clean handshake together with
// the wire records of one stream in each direction.
type streamSetup struct {
	cfg      hsCase
	msgsAB   [][]byte // plaintexts initiator -> responder
	msgsBA   [][]byte
	recsAB   [][]byte // wire records (header+body)
	recsBA   [][]byte
	readerAB func(stream []byte, layer string) ([][]byte, int, string) // fresh reader over delivered bytes
}

func msgOf(tag byte, i, size int) []byte {
	b := make([]byte, size)
	for j := range b {
		b[j] = byte(int(tag) + i*31 + j*7)
	}
	return b
}

// recordsOf writes msgs on machine w and returns one wire record per message.
func recordsOf(w *mailbox.Machine, msgs [][]byte) ([][]byte, error) {
	var out [][]byte
	for _, m := range msgs {
		var buf bytes.Buffer
		if err := w.WriteMessage(m); err != nil {
			return nil, err
		}
		if _, err := w.Flush(&buf); err != nil {
			return nil, err
		}
		out = append(out, buf.Bytes())
	}
	return out, nil
}

// readAll reads messages through the given layer until three consecutive
// errors; it returns the messages, the index of the first error (-1 = none)
// and a note when something valid was returned after an error.
// timeoutSide is a transport whose Read times out once when the stream has
// been consumed up to byte `at` exactly (what a read deadline does when the
// relay holds the following bytes back), and then carries on.
type timeoutSide struct {
	*side
	pos, at int
	fired   bool
}

func (t *timeoutSide) Read(b []byte) (int, error) {
	if !t.fired && t.at >= 0 {
		if t.pos == t.at {
			t.fired = true
			return 0, timeoutErr{}
		}
		if t.pos < t.at && t.pos+len(b) > t.at {
			b = b[:t.at-t.pos]
		}
	}
	n, err := t.side.Read(b)
	t.pos += n
	return n, err
}

func readAll(layer string, m *mailbox.Machine, stream []byte, cfg hsCase, timeoutAt int) (msgs [][]byte, firstErr int, after string, panicked string) {
	firstErr = -1
	defer func() {
		if r := recover(); r != nil {
			panicked = fmt.Sprint(r)
		}
	}()
	src := newPipe()
	_, _ = src.Write(stream)
	src.Close()
	s := &timeoutSide{side: &side{in: src, out: newPipe(), name: "reader"}, at: timeoutAt}
	var read func() ([]byte, error)
	switch layer {
	case "Machine":
		read = func() ([]byte, error) { return m.ReadMessage(s) }
	case "NoiseConn":
		c := mailbox.VerifNewNoiseConn(s, m)
		read = func() ([]byte, error) { return c.ReadNextMessage() }
	case "NoiseConn-split":
		// the two-step API (header first, then the body into a buffer
		// of the announced size)
		c := mailbox.VerifNewNoiseConn(s, m)
		read = func() ([]byte, error) {
			n, err := c.ReadNextHeader()
			if err != nil {
				return nil, err
			}
			return c.ReadNextBody(make([]byte, n))
		}
	default:
		panic("layer")
	}
	errs := 0
	for k := 0; k < 64 && errs < 3; k++ {
		b, err := read()
		if err != nil {
			errs++
			if firstErr < 0 {
				firstErr = len(msgs)
			}
			if err == io.EOF || err == io.ErrUnexpectedEOF {
				// nothing more will come
				if errs >= 1 && src.closed && len(src.chunks) == 0 {
					break
				}
			}
			continue
		}
		errs = 0
		if firstErr >= 0 && after == "" {
			after = fmt.Sprintf("message #%d (%d bytes) returned as valid after the read error at position %d", len(msgs), len(b), firstErr)
		}
		msgs = append(msgs, b)
	}
	return
}

func TestC02(t *testing.T) {
	if !want(t, "C02") {
		return
	}
	r := ev.Start("C02", "fault_enumeration")
	var evals, nontrivial int64
	var mu sync.Mutex
	classes := map[string]int{}
	note := func(c string) { mu.Lock(); classes[c]++; mu.Unlock() }

	cfgs := []hsCase{
		{cMin: 0, cMax: 0, sMin: 0, sMax: 0, payload: 5},
		{cMin: 2, cMax: 2, sMin: 2, sMax: 2, payload: 5},
		{kk: true, cMin: 2, cMax: 2, sMin: 2, sMax: 2, payload: 5},
	}
	// (a 2-byte payload makes the body exactly as long as a header: 18 bytes)
	sizeSets := [][]int{{0, 1, 5}, {5, 5, 5}, {1, 0, 0, 1}, {2, 2, 2, 2}, {2, 2, 3, 2}}
	if r.Thorough() {
		sizeSets = append(sizeSets, []int{5, 65535, 1}, []int{0, 0, 0, 0})
	}
	type job struct {
		cfg   hsCase
		sizes []int
		dir   string
		layer string
		edits []edit
	}
	var jobs []job
	for ci, cfg := range cfgs {
		for si, sizes := range sizeSets {
			k := len(sizes)
			var singles []edit
			for i := 0; i < k; i++ {
				recLen := 18 + sizes[i] + 16
				if sizes[i] <= 5 {
					for bit := 0; bit < recLen*8; bit++ {
						singles = append(singles, edit{kind: "flip", i: i, arg: bit})
					}
				} else {
					for _, by := range []int{0, 1, 17, 18, 19, recLen / 2, recLen - 17, recLen - 16, recLen - 1} {
						for bit := 0; bit < 8; bit++ {
							singles = append(singles, edit{kind: "flip", i: i, arg: by*8 + bit})
						}
					}
				}
			}
			var nonflip []edit
			for i := 0; i < k; i++ {
				nonflip = append(nonflip, edit{kind: "drop", i: i}, edit{kind: "dup", i: i})
				if i+1 < k {
					nonflip = append(nonflip, edit{kind: "swap", i: i})
				}
				for j := i; j < k; j++ {
					nonflip = append(nonflip, edit{kind: "replay", i: i, j: j})
				}
			}
			for i := 0; i <= k; i++ {
				for j := 0; j < 2; j++ {
					nonflip = append(nonflip, edit{kind: "reflect", i: i, j: j})
				}
				for _, n := range []int{1, 18, 34} {
					nonflip = append(nonflip, edit{kind: "inject", i: i, j: 0, arg: n}, edit{kind: "inject", i: i, j: 1, arg: n})
				}
			}
			for i := 0; i < k; i++ {
				nonflip = append(nonflip, edit{kind: "dropheader", i: i})
				for _, n := range []int{1, 18, sizes[i] + 16, 36} {
					nonflip = append(nonflip, edit{kind: "injectmid", i: i, arg: n})
				}
			}
			total := 0
			for _, s := range sizes {
				total += 18 + s + 16
			}
			var timeouts []edit
			if total < 400 {
				for off := 0; off < total; off++ {
					nonflip = append(nonflip, edit{kind: "trunc", arg: off})
					// a read deadline that expires at this byte, the
					// reader retrying afterwards
					timeouts = append(timeouts, edit{kind: "timeout", arg: off})
				}
			}
			for di, dir := range []string{"a2b", "b2a"} {
				all := []string{"Machine", "NoiseConn", "NoiseConn-split"}
				layers := []string{all[(ci+si+di)%3]}
				if len(sizes) == 4 && sizes[0] == 2 {
					// header-sized bodies: every reading layer
					layers = all
				}
				for _, layer := range all {
					for _, e := range timeouts {
						jobs = append(jobs, job{cfg, sizes, dir, layer, []edit{e}})
					}
				}
				for _, layer := range layers {
					jobs = append(jobs, job{cfg, sizes, dir, layer, nil})
					for _, e := range singles {
						jobs = append(jobs, job{cfg, sizes, dir, layer, []edit{e}})
					}
				}
				layer := layers[0]
				for _, e := range nonflip {
					jobs = append(jobs, job{cfg, sizes, dir, layer, []edit{e}})
				}
				if r.Thorough() && si == 0 {
					for _, e1 := range nonflip {
						if e1.kind == "trunc" {
							continue
						}
						for _, e2 := range nonflip {
							if e2.kind == "trunc" || e2.kind == "reflect" && e2.i > len(sizes) {
								continue
							}
							jobs = append(jobs, job{cfg, sizes, dir, layer, []edit{e1, e2}})
						}
					}
				}
			}
		}
	}

	parallel(len(jobs), func(ji int) {
		j := jobs[ji]
		mi, mr, err := pairOfMachines(j.cfg)
		if err != nil {
			r.Violation("setup", err.Error(), j.cfg.String())
			return
		}
		w, rd, ow := mi, mr, mr
		if j.dir == "b2a" {
			w, rd, ow = mr, mi, mi
		}
		_ = ow
		var msgs, otherMsgs [][]byte
		lengthLike := len(j.sizes) == 4 && j.sizes[0] == 2 && j.sizes[2] == 3
		for i, s := range j.sizes {
			m := msgOf('A', i, s)
			if lengthLike {
				// payloads that look like length headers (00 02), so
				// that a body taken for a header announces a plausible
				// length
				m = []byte{0x00, 0x02}
				if s == 3 {
					m = []byte{7, 7, 7}
				}
			}
			msgs = append(msgs, m)
			otherMsgs = append(otherMsgs, msgOf('B', i, s))
		}
		recs, err := recordsOf(w, msgs)
		if err != nil {
			r.Violation("setup", err.Error(), j.cfg.String())
			return
		}
		// the opposite direction's records (written by the reader's own
		// machine), for reflection
		other, err := recordsOf(rd, otherMsgs)
		if err != nil {
			r.Violation("setup", err.Error(), j.cfg.String())
			return
		}
		delivered := recs
		timeoutAt := -1
		for _, e := range j.edits {
			if e.kind == "timeout" {
				timeoutAt = e.arg
			}
			if e.kind == "swap" && e.i+1 >= len(delivered) || e.kind == "flip" && (e.i >= len(delivered) || e.arg/8 >= len(delivered[e.i])) ||
				(e.kind == "drop" || e.kind == "dup" || e.kind == "replay") && (e.i >= len(delivered) || e.j >= len(delivered)) ||
				(e.kind == "injectmid" || e.kind == "dropheader") && (e.i >= len(delivered) || len(delivered[e.i]) < 18) ||
				(e.kind == "reflect" || e.kind == "inject") && e.i > len(delivered) {
				return // second edit does not apply to the edited list
			}
			if e.kind == "trunc" && e.arg > len(bytes.Join(delivered, nil)) {
				return
			}
			delivered = e.apply(delivered, other)
		}
		orig := bytes.Join(recs, nil)
		stream := bytes.Join(delivered, nil)
		atomic.AddInt64(&evals, 1)

		got, firstErr, after, panicked := readAll(j.layer, rd, stream, j.cfg, timeoutAt)
		label := fmt.Sprintf("%v, %s via %s, records of %v plaintext bytes, edits %v", j.cfg, j.dir, j.layer, j.sizes, j.edits)
		ctx := map[string]any{"config": j.cfg.String(), "direction": j.dir, "layer": j.layer, "record_sizes": j.sizes, "edits": fmt.Sprint(j.edits)}
		ek := "none"
		if len(j.edits) > 0 {
			ek = j.edits[0].kind
			if len(j.edits) > 1 {
				ek += "+" + j.edits[1].kind
			}
		}
		if panicked != "" {
			// owned by C07; here it is simply a failed read
			note("panic")
			return
		}
		// The reader model is a reader that carries on after a read error
		// (a consumer that stops at the first error sees a prefix of what
		// this one sees). Everything it is ever handed as valid,
		// concatenated, must be a prefix of what the peer wrote: after a
		// record was rejected nothing but that very record's genuine
		// successor-in-order may follow, so "one, error, three" is as much
		// a violation as altered, replayed, reflected or misframed data.
		beforeErr := len(got)
		if firstErr >= 0 && firstErr < beforeErr {
			beforeErr = firstErr
		}
		if firstErr >= 0 && len(got) > firstErr {
			note("data-after-error")
			for i, g := range got[firstErr:] {
				k := firstErr + i
				if k >= len(msgs) || !bytes.Equal(g, msgs[k]) {
					cls := "forged-data-after-error/"
					for _, m := range msgs {
						if bytes.Equal(m, g) {
							cls = "gap-after-error/"
						}
					}
					r.Violation(cls+ek,
						fmt.Sprintf("%s: after the read error at position %d the reader was handed %d bytes (%x) as message #%d; the peer wrote something else at that position, so the reader's output is no longer a prefix of what the peer wrote", label, firstErr, len(g), trunc16(g), k), ctx)
					return
				}
			}
			after = ""
		}
		// 1. outputs are a prefix of what was written
		for i, g := range got {
			if i >= len(msgs) || !bytes.Equal(g, msgs[i]) {
				r.Violation("not-a-prefix/"+ek, fmt.Sprintf("%s: message #%d returned to the reader is not what the peer wrote at that position (%d bytes)", label, i, len(g)), ctx)
				return
			}
		}
		if timeoutAt >= 0 {
			// A delay changes no byte: the read may fail for good (a
			// record cut by a deadline cannot be resumed) or go on, and
			// only the prefix clauses above apply.
			if len(got) == len(msgs) {
				note("timeout/all-read")
			} else {
				note("timeout/stream-fails-visibly")
			}
			atomic.AddInt64(&nontrivial, 1)
			return
		}
		// 2. index of the first record whose wire bytes differ
		fd := firstDiff(stream, orig)
		firstBad := len(recs)
		if fd < len(orig) || len(stream) != len(orig) {
			off := 0
			for i, rc := range recs {
				if fd < off+len(rc) {
					firstBad = i
					break
				}
				off += len(rc)
			}
		}
		if beforeErr > firstBad {
			r.Violation("tampered-record-accepted/"+ek, fmt.Sprintf("%s: %d messages were returned as valid before any error although the stream deviates from what the peer wrote in record %d", label, beforeErr, firstBad), ctx)
			return
		}
		// 3. a deviation inside the stream surfaces as an error
		clean := bytes.Equal(stream, orig)
		if !clean && firstErr < 0 {
			r.Violation("deviation-without-error/"+ek, fmt.Sprintf("%s: the stream was altered but no read reported an error", label), ctx)
			return
		}
		if clean && (firstErr >= 0 && len(got) != len(msgs)) {
			r.Violation("clean-stream-fails", fmt.Sprintf("%s: untouched stream, only %d of %d messages read (first error at %d)", label, len(got), len(msgs), firstErr), ctx)
			return
		}
		if after != "" {
			r.Violation("valid-after-error/"+ek, label+": "+after, ctx)
			return
		}
		if !clean {
			atomic.AddInt64(&nontrivial, 1)
		}
		note(fmt.Sprintf("ok/%s/prefix=%d", ek, len(got)))
	})
	// ---- long streams: reflection, replay and cross-direction keys after
	// key rotations (the short streams above never rotate)
	perRot := int(mailbox.VerifKeyRotationInterval) / 2
	type ljob struct {
		cfg  hsCase
		n    int // records per direction before the attack
		kind string
		back int // how far back the replayed / reflected record lies
	}
	var ljobs []ljob
	for _, cfg := range cfgs[1:] {
		for _, n := range []int{perRot - 1, perRot, perRot + 1, 2*perRot + 1} {
			for _, back := range []int{0, 1, perRot - 1, perRot, perRot + 1} {
				if back > n {
					continue
				}
				ljobs = append(ljobs, ljob{cfg, n, "reflect", back}, ljob{cfg, n, "replay", back})
			}
		}
	}
	parallel(len(ljobs), func(i int) {
		j := ljobs[i]
		a, b, err := pairOfMachines(j.cfg)
		if err != nil {
			r.Violation("setup", err.Error(), j.cfg.String())
			return
		}
		atomic.AddInt64(&evals, 1)
		label := fmt.Sprintf("%v: %d records each way, then %s of the record %d positions back", j.cfg, j.n, j.kind, j.back)
		var recsAB, recsBA [][]byte
		for k := 0; k <= j.n; k++ {
			m := msgOf('L', k, 9)
			ra, e1 := recordsOf(a, [][]byte{m})
			rb, e2 := recordsOf(b, [][]byte{m})
			if e1 != nil || e2 != nil {
				r.Violation("setup", "write failed", label)
				return
			}
			recsAB, recsBA = append(recsAB, ra[0]), append(recsBA, rb[0])
			if k == j.n {
				break // the last record of each direction is not delivered
			}
			if got, err := b.ReadMessage(bytes.NewReader(ra[0])); err != nil || !bytes.Equal(got, m) {
				r.Violation("long-stream-fails", fmt.Sprintf("%s: untouched record %d a->b does not decrypt: %v", label, k, err), label)
				return
			}
			if got, err := a.ReadMessage(bytes.NewReader(rb[0])); err != nil || !bytes.Equal(got, m) {
				r.Violation("long-stream-fails", fmt.Sprintf("%s: untouched record %d b->a does not decrypt: %v", label, k, err), label)
				return
			}
		}
		// direction-separated keys, also after rotations
		if a.VerifSend().Key == b.VerifSend().Key || a.VerifSend().Key == a.VerifRecv().Key {
			r.Violation("direction-keys-equal", fmt.Sprintf("%s: the two directions use the same traffic key after %d records", label, j.n), label)
			return
		}
		// b now expects record n from a. Hand it something else.
		var forged []byte
		switch j.kind {
		case "reflect":
			forged = recsBA[j.n-j.back] // b's own record of the same / an earlier index
		case "replay":
			if j.back == 0 {
				return // the genuine next record
			}
			forged = recsAB[j.n-j.back]
		}
		got, err := b.ReadMessage(bytes.NewReader(forged))
		if err == nil {
			r.Violation("tampered-record-accepted/"+j.kind+"-after-rotation",
				fmt.Sprintf("%s: accepted as valid (%d bytes returned)", label, len(got)), label)
			return
		}
		atomic.AddInt64(&nontrivial, 1)
		note("ok/long/" + j.kind)
	})
	r.Sample(map[string]any{"config": cfgs[1].String(), "long_stream": "501 records each way, then reflect the record 500 positions back"})
	r.Sample(map[string]any{"config": cfgs[1].String(), "record_sizes": []int{0, 1, 5}, "edit": edit{kind: "flip", i: 1, arg: 3}.String()})
	r.Sample(map[string]any{"config": cfgs[2].String(), "record_sizes": []int{5, 5, 5}, "edit": edit{kind: "reflect", i: 1, j: 0}.String()})
	r.Set("evaluations", evals)
	r.Set("distinct_nontrivial", nontrivial)
	r.Set("outcome_classes", classes)
	r.Set("rule", "after a real handshake (XX v0, XX v2, KK), both directions, through Machine.ReadMessage and NoiseConn: streams of 3-4 records of 0/1/5 bytes (65535 thorough) including equal plaintexts; every single-bit flip of every byte of every record; drop, duplicate, swap-adjacent, replay-later, reflect (a record of the opposite direction), inject 1/18/34 bytes of 00/ff before every record, inject bytes between header and body, drop a header, truncate at every byte offset; thorough: all ordered pairs of non-flip edits; long streams of 499/500/501/1001 records each way (across key rotations) followed by a reflected or replayed record 0/1/499/500/501 positions back, plus the check that the two directions never share a key. The reader reads until three consecutive errors. distinct_nontrivial = altered streams on which the oracle (prefix, tampered record never accepted, deviation reported as an error, nothing valid after an error) held")
	r.Set("exhaustive", true)
	exitCode = r.Finish()
}

func trunc16(b []byte) []byte {
	if len(b) > 16 {
		return b[:16]
	}
	return b
}
