// Package noiseh closes the Noise (Brontide) code of the mailbox package with
// an in-memory duplex whose two directions are byte logs: an edit function
// (the man in the middle) maps what was written to what is delivered, readers
// see a configurable fragmentation, writers a configurable partial-write
// script. Everything is sequential and deterministic.
package noiseh

import (
	"bytes"
	"crypto/sha256"
	"errors"
	"fmt"
	"io"
	"net"
	"runtime/debug"
	"sync"
	"sync/atomic"
	"time"

	"github.com/btcsuite/btcd/btcec/v2"
	"github.com/lightningnetwork/lnd/keychain"

	"github.com/lightninglabs/lightning-node-connect/mailbox"
)

// staticKey returns the i-th fixed static key.
func staticKey(i int) *btcec.PrivateKey {
	h := sha256.Sum256([]byte(fmt.Sprintf("verif-static-key-%d", i)))
	k, _ := btcec.PrivKeyFromBytes(h[:])
	return k
}

func ecdhKey(i int) keychain.SingleKeyECDH {
	return &keychain.PrivKeyECDH{PrivKey: staticKey(i)}
}

// ephGen returns a deterministic ephemeral key generator.
func ephGen(tag string) func() (*btcec.PrivateKey, error) {
	n := 0
	return func() (*btcec.PrivateKey, error) {
		n++
		h := sha256.Sum256([]byte(fmt.Sprintf("verif-ephemeral-%s-%d", tag, n)))
		k, _ := btcec.PrivKeyFromBytes(h[:])
		return k, nil
	}
}

// entropy returns the i-th fixed 14-byte pairing entropy.
func entropy(i int) []byte {
	h := sha256.Sum256([]byte(fmt.Sprintf("verif-passphrase-%d", i)))
	e := append([]byte{}, h[:14]...)
	e[13] &= 0xfc // only 110 bits are significant
	return e
}

// authPayload builds a distinctive auth payload of the given size.
func authPayload(size int) []byte {
	if size == 0 {
		return nil
	}
	marker := []byte("MACAROON-SECRET-")
	b := make([]byte, size)
	for i := range b {
		b[i] = marker[i%len(marker)]
		if i >= len(marker) {
			b[i] ^= byte(i / len(marker))
		}
	}
	return b
}

// ---------------------------------------------------------------- pipes

var errPipeClosed = errors.New("pipe closed")

// pipe is one direction of the duplex.
type pipe struct {
	mu     sync.Mutex
	cond   *sync.Cond
	chunks [][]byte // delivered pieces not yet read
	closed bool

	// written is everything the writer wrote, one entry per Write call.
	written [][]byte
	// edit maps the index-th Write to the pieces that are delivered (a
	// nil edit delivers the chunk unchanged in one piece). closeAfter
	// ends the direction after this chunk (the reader then sees EOF).
	edit func(index int, chunk []byte) (pieces [][]byte, closeAfter bool)
	// maxRead bounds what one Read returns (0 = whatever is in the piece).
	maxRead int
	reads   int
	// waiting is set while a reader is blocked on an empty pipe.
	waiting bool
	// failAt: the failAt-th Write (counted from 1; 0 = never) returns an
	// error and the direction ends: the transport broke under the writer.
	failAt int
	// partial: a script of partial writes: the pipe accepts partial[0]
	// bytes and fails the Write with a timeout, then partial[1] more bytes,
	// and so on; when the script is over it accepts everything.
	partial     []int
	partialLeft int
	partialOn   bool
	// eofWithData: the Read that returns the last bytes of a closed pipe
	// returns io.EOF with them.
	eofWithData bool
}

var errTransportBroke = errors.New("write: connection reset by peer")

func newPipe() *pipe {
	p := &pipe{}
	p.cond = sync.NewCond(&p.mu)
	return p
}

func (p *pipe) Write(b []byte) (int, error) {
	p.mu.Lock()
	defer p.mu.Unlock()
	if p.closed {
		return 0, errPipeClosed
	}
	if p.failAt > 0 && len(p.written)+1 == p.failAt {
		p.written = append(p.written, nil)
		p.closed = true
		p.cond.Broadcast()
		return 0, errTransportBroke
	}
	if len(p.partial) > 0 || p.partialOn {
		if !p.partialOn {
			p.partialOn = true
			p.partialLeft, p.partial = p.partial[0], p.partial[1:]
		}
		if p.partialLeft < len(b) {
			n := p.partialLeft
			if n > 0 {
				p.written = append(p.written, append([]byte{}, b[:n]...))
				p.chunks = append(p.chunks, append([]byte{}, b[:n]...))
			}
			p.partialOn = false
			if len(p.partial) > 0 {
				p.partialOn = true
				p.partialLeft, p.partial = p.partial[0], p.partial[1:]
			}
			p.cond.Broadcast()
			return n, timeoutErr{}
		}
		p.partialLeft -= len(b)
	}
	c := append([]byte{}, b...)
	idx := len(p.written)
	p.written = append(p.written, c)
	pieces := [][]byte{c}
	closeAfter := false
	if p.edit != nil {
		pieces, closeAfter = p.edit(idx, c)
	}
	for _, pc := range pieces {
		if len(pc) > 0 {
			p.chunks = append(p.chunks, append([]byte{}, pc...))
		}
	}
	if closeAfter {
		p.closed = true
	}
	p.cond.Broadcast()
	return len(b), nil
}

func (p *pipe) Read(b []byte) (int, error) {
	p.mu.Lock()
	defer p.mu.Unlock()
	for len(p.chunks) == 0 {
		if p.closed {
			return 0, io.EOF
		}
		p.waiting = true
		p.cond.Wait()
		p.waiting = false
	}
	if len(b) == 0 {
		return 0, nil
	}
	p.reads++
	c := p.chunks[0]
	n := len(b)
	if n > len(c) {
		n = len(c)
	}
	if p.maxRead > 0 && n > p.maxRead {
		n = p.maxRead
	}
	copy(b, c[:n])
	if n == len(c) {
		p.chunks = p.chunks[1:]
	} else {
		p.chunks[0] = c[n:]
	}
	if p.eofWithData && p.closed && len(p.chunks) == 0 {
		// io.Reader allows the last bytes and the end of the stream to
		// be reported by the same call
		return n, io.EOF
	}
	return n, nil
}

func (p *pipe) isWaiting() bool {
	p.mu.Lock()
	defer p.mu.Unlock()
	return p.waiting && len(p.chunks) == 0 && !p.closed
}

func (p *pipe) Close() {
	p.mu.Lock()
	p.closed = true
	p.cond.Broadcast()
	p.mu.Unlock()
}

// allWritten concatenates everything written.
func (p *pipe) allWritten() []byte {
	p.mu.Lock()
	defer p.mu.Unlock()
	return bytes.Join(p.written, nil)
}

// side is one end of the duplex: reads from in, writes to out. It also
// implements net.Conn and mailbox.ProxyConn so that the connection types can
// be layered on it.
type side struct {
	in, out *pipe
	name    string
}

func (s *side) Read(b []byte) (int, error)  { return s.in.Read(b) }
func (s *side) Write(b []byte) (int, error) { return s.out.Write(b) }
func (s *side) Close() error {
	s.in.Close()
	s.out.Close()
	return nil
}

type fakeAddr string

func (a fakeAddr) Network() string { return "mem" }
func (a fakeAddr) String() string  { return string(a) }

func (s *side) LocalAddr() net.Addr                { return fakeAddr(s.name) }
func (s *side) RemoteAddr() net.Addr               { return fakeAddr("peer-of-" + s.name) }
func (s *side) SetDeadline(t time.Time) error      { return nil }
func (s *side) SetReadDeadline(t time.Time) error  { return nil }
func (s *side) SetWriteDeadline(t time.Time) error { return nil }

// controlConn part of mailbox.ProxyConn (not used by the Noise layer).
func (s *side) ReceiveControlMsg(mailbox.ControlMsg) error { return errors.New("not a control conn") }
func (s *side) SendControlMsg(mailbox.ControlMsg) error    { return errors.New("not a control conn") }
func (s *side) SetRecvTimeout(time.Duration)               {}
func (s *side) SetSendTimeout(time.Duration)               {}

var _ mailbox.ProxyConn = (*side)(nil)

// duplex is a pair of sides.
type duplex struct {
	i2r, r2i *pipe
	I, R     *side
}

func newDuplex() *duplex {
	d := &duplex{i2r: newPipe(), r2i: newPipe()}
	d.I = &side{in: d.r2i, out: d.i2r, name: "initiator"}
	d.R = &side{in: d.i2r, out: d.r2i, name: "responder"}
	return d
}

// ---------------------------------------------------------------- handshakes

// impostorKey presents one key pair's public key but computes ECDH with
// another private key: somebody who knows the paired peer's public key but not
// its private key.
type impostorKey struct {
	pub  *btcec.PublicKey
	real keychain.SingleKeyECDH
}

func (k *impostorKey) PubKey() *btcec.PublicKey { return k.pub }
func (k *impostorKey) ECDH(p *btcec.PublicKey) ([32]byte, error) {
	return k.real.ECDH(p)
}

// party describes one side of a handshake.
type party struct {
	// impostorOf >= 0: present the public key of that static key while
	// holding the private key of `local`.
	impostorOf  int
	hasImpostor bool
	local       int    // static key index
	remote      int    // expected remote static key index (-1: none, XX)
	secret      []byte // passphrase entropy
	min, max    byte
	auth        []byte // responder's auth payload
	ephTag      string
}

// partyResult is the view of one side after a handshake attempt.
type partyResult struct {
	err       error
	panicked  string
	machine   *mailbox.Machine
	connData  *mailbox.ConnData
	onRemote  [][]byte // arguments of onRemoteStatic
	onAuth    [][]byte // arguments of onAuthData
	wrote     [][]byte // raw bytes written, per Write
	completed bool
	// deadline: still waiting for handshake bytes when the modelled read deadline expired
	deadline bool
}

func (p party) pattern() mailbox.HandshakePattern {
	if p.remote >= 0 {
		return mailbox.KKPattern
	}
	return mailbox.XXPattern
}

func (p party) connData(res *partyResult) *mailbox.ConnData {
	var remote *btcec.PublicKey
	if p.remote >= 0 {
		remote = staticKey(p.remote).PubKey()
	}
	var key keychain.SingleKeyECDH = ecdhKey(p.local)
	if p.hasImpostor {
		key = &impostorKey{pub: staticKey(p.impostorOf).PubKey(), real: ecdhKey(p.local)}
	}
	return mailbox.NewConnData(key, remote, p.secret, p.auth,
		func(k *btcec.PublicKey) error {
			res.onRemote = append(res.onRemote, k.SerializeCompressed())
			return nil
		},
		func(d []byte) error {
			res.onAuth = append(res.onAuth, append([]byte{}, d...))
			return nil
		})
}

// hsOpts tunes the environment of one handshake.
type hsOpts struct {
	editI2R, editR2I   func(index int, chunk []byte) ([][]byte, bool)
	maxReadI, maxReadR int // fragmentation seen by the initiator / responder
	// reuseI: the initiator keeps the ConnData of an earlier handshake (a
	// reconnect of the same client)
	reuseI *mailbox.ConnData
	// failWriteI / failWriteR: that Write (counted from 1) of the
	// initiator / responder fails: the transport broke at that act.
	failWriteI, failWriteR int
}

// runHandshake runs DoHandshake on both sides over a fresh duplex.
func runHandshake(ini, rsp party, o hsOpts) (ri, rr *partyResult, d *duplex, err error) {
	d = newDuplex()
	d.i2r.edit, d.r2i.edit = o.editI2R, o.editR2I
	d.r2i.maxRead, d.i2r.maxRead = o.maxReadI, o.maxReadR
	d.i2r.failAt, d.r2i.failAt = o.failWriteI, o.failWriteR
	ri, rr = &partyResult{}, &partyResult{}
	ri.connData, rr.connData = ini.connData(ri), rsp.connData(rr)
	if o.reuseI != nil {
		ri.connData = o.reuseI
	}

	mk := func(p party, res *partyResult, initiator bool) error {
		m, err := mailbox.NewBrontideMachine(&mailbox.BrontideMachineConfig{
			ConnData: res.connData, Initiator: initiator, HandshakePattern: p.pattern(),
			MinHandshakeVersion: p.min, MaxHandshakeVersion: p.max,
			EphemeralGen: ephGen(p.ephTag),
		})
		res.machine = m
		return err
	}
	if e := mk(ini, ri, true); e != nil {
		ri.err = e
	}
	if e := mk(rsp, rr, false); e != nil {
		rr.err = e
	}
	if ri.err != nil || rr.err != nil {
		// construction failed (e.g. KK with max version < 2): no
		// handshake takes place
		return ri, rr, d, nil
	}

	var wg sync.WaitGroup
	run := func(res *partyResult, s *side) {
		defer wg.Done()
		defer func() {
			if r := recover(); r != nil {
				res.panicked = fmt.Sprintf("%v\n%s", r, debug.Stack())
				res.err = fmt.Errorf("panic: %v", r)
			}
			if res.err != nil {
				// a failed side hangs up, like the connection
				// layers do
				s.Close()
			}
		}()
		res.err = res.machine.DoHandshake(s)
		res.completed = res.err == nil
	}
	var fin [2]atomic.Bool
	wg.Add(2)
	go func() { run(ri, d.I); fin[0].Store(true) }()
	go func() { run(rr, d.R); fin[1].Store(true) }()
	done := make(chan struct{})
	go func() { wg.Wait(); close(done) }()
	// The connection layers put a read deadline (handshakeReadTimeout) on
	// the handshake. The in-memory pipes have no clock, so the deadline is
	// modelled structurally: when every side that has not returned is
	// blocked reading and nothing is in flight, the deadline expires and
	// the readers fail.
	start := time.Now()
	stuck := 0
loop:
	for {
		select {
		case <-done:
			break loop
		case <-time.After(200 * time.Microsecond):
		}
		iWaits, rWaits := d.r2i.isWaiting(), d.i2r.isWaiting()
		iDone, rDone := fin[0].Load(), fin[1].Load()
		if (iWaits || iDone) && (rWaits || rDone) && (iWaits || rWaits) {
			stuck++
			if stuck >= 3 {
				ri.deadline, rr.deadline = iWaits, rWaits
				d.I.Close()
				d.R.Close()
				<-done
				break loop
			}
		} else {
			stuck = 0
		}
		if time.Since(start) > 30*time.Second {
			d.I.Close()
			d.R.Close()
			<-done
			return ri, rr, d, fmt.Errorf("handshake did not terminate")
		}
	}
	ri.wrote, rr.wrote = d.i2r.written, d.r2i.written
	return ri, rr, d, nil
}

// view is what one party believes after a completed handshake.
type view struct {
	Version   byte
	SendKey   [32]byte
	RecvKey   [32]byte
	RemoteKey []byte // machine's remote static
	StoredKey []byte // ConnData.RemoteKey() (nil if not stored)
	Auth      []byte // initiator: ConnData.AuthData()
	OnRemote  int
	OnAuth    int
}

func viewOf(r *partyResult) view {
	v := view{
		Version: r.machine.VerifVersion(), SendKey: r.machine.VerifSend().Key,
		RecvKey: r.machine.VerifRecv().Key, RemoteKey: r.machine.VerifRemoteStatic(),
		Auth: r.connData.AuthData(), OnRemote: len(r.onRemote), OnAuth: len(r.onAuth),
	}
	if k := r.connData.RemoteKey(); k != nil {
		v.StoredKey = k.SerializeCompressed()
	}
	return v
}
