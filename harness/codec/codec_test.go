// Package codec holds the bounded-exhaustive checks of the wire codecs:
// C19 (round trips) and the decoder part of C07 (no byte string panics a
// decoder).
package codec

import (
	"bytes"
	"encoding/binary"
	"fmt"
	"os"
	"runtime"
	"runtime/debug"
	"sync"
	"sync/atomic"
	"testing"

	"github.com/lightninglabs/lightning-node-connect/gbn"
	"github.com/lightninglabs/lightning-node-connect/mailbox"

	"verif/lib/ev"
)

var exitCode = 2

func TestMain(m *testing.M) {
	c := m.Run()
	if c != 0 && exitCode == 0 {
		exitCode = 2
	}
	os.Exit(exitCode)
}

// safely runs f and converts a panic into (panicked, message).
func safely(f func()) (p bool, msg string) {
	defer func() {
		if r := recover(); r != nil {
			p = true
			msg = fmt.Sprintf("%v\n%s", r, firstFrames(debug.Stack()))
		}
	}()
	f()
	return
}

func firstFrames(st []byte) string {
	lines := bytes.Split(st, []byte("\n"))
	var out []string
	for _, l := range lines {
		s := string(l)
		if bytes.Contains(l, []byte("lightning-node-connect")) {
			out = append(out, s)
		}
		if len(out) >= 6 {
			break
		}
	}
	return fmt.Sprint(out)
}

// parallel runs f(i) for i in [0,n) on all cores.
func parallel(n int, f func(i int)) {
	w := runtime.NumCPU()
	var next int64 = -1
	var wg sync.WaitGroup
	for k := 0; k < w; k++ {
		wg.Add(1)
		go func() {
			defer wg.Done()
			for {
				i := int(atomic.AddInt64(&next, 1))
				if i >= n {
					return
				}
				f(i)
			}
		}()
	}
	wg.Wait()
}

func msgEqual(a, b gbn.Message) bool {
	switch x := a.(type) {
	case *gbn.PacketData:
		y, ok := b.(*gbn.PacketData)
		return ok && x.Seq == y.Seq && x.FinalChunk == y.FinalChunk &&
			x.IsPing == y.IsPing && bytes.Equal(x.Payload, y.Payload)
	case *gbn.PacketACK:
		y, ok := b.(*gbn.PacketACK)
		return ok && x.Seq == y.Seq
	case *gbn.PacketNACK:
		y, ok := b.(*gbn.PacketNACK)
		return ok && x.Seq == y.Seq
	case *gbn.PacketSYN:
		y, ok := b.(*gbn.PacketSYN)
		return ok && x.N == y.N
	case *gbn.PacketFIN:
		_, ok := b.(*gbn.PacketFIN)
		return ok
	case *gbn.PacketSYNACK:
		_, ok := b.(*gbn.PacketSYNACK)
		return ok
	}
	return false
}

func describe(m gbn.Message) string {
	switch x := m.(type) {
	case *gbn.PacketData:
		return fmt.Sprintf("DATA{seq=%d final=%v ping=%v len=%d}", x.Seq, x.FinalChunk, x.IsPing, len(x.Payload))
	case *gbn.PacketACK:
		return fmt.Sprintf("ACK{%d}", x.Seq)
	case *gbn.PacketNACK:
		return fmt.Sprintf("NACK{%d}", x.Seq)
	case *gbn.PacketSYN:
		return fmt.Sprintf("SYN{%d}", x.N)
	case *gbn.PacketFIN:
		return "FIN"
	case *gbn.PacketSYNACK:
		return "SYNACK"
	}
	return fmt.Sprintf("%T", m)
}

func payloadOf(n int) []byte {
	if n == 0 {
		return nil
	}
	b := make([]byte, n)
	for i := range b {
		b[i] = byte(i*7 + n)
	}
	return b
}

// bytesRoundTrip checks the "accepted bytes" half of C19 on b: if b
// deserialises, re-serialising and deserialising again gives the same value.
// Returns (accepted, failure message).
func bytesRoundTrip(b []byte) (bool, string) {
	var (
		m1, m2 gbn.Message
		e1, e2 error
		ser    []byte
	)
	p, pm := safely(func() { m1, e1 = gbn.Deserialize(b) })
	if p {
		// A panic in the decoder is C07's business; for C19 the
		// string simply did not deserialise.
		return false, "PANIC:" + pm
	}
	if e1 != nil {
		return false, ""
	}
	p, pm = safely(func() {
		ser, e2 = m1.Serialize()
		if e2 == nil {
			m2, e2 = gbn.Deserialize(ser)
		}
	})
	if p {
		return true, fmt.Sprintf("re-serialise/deserialise of %s (from %x) panicked: %s", describe(m1), b, pm)
	}
	if e2 != nil {
		return true, fmt.Sprintf("re-serialise/deserialise of %s (from %x) failed: %v", describe(m1), b, e2)
	}
	if !msgEqual(m1, m2) {
		return true, fmt.Sprintf("bytes %x -> %s, re-serialised %x -> %s", b, describe(m1), ser, describe(m2))
	}
	return true, ""
}

func TestC19(t *testing.T) {
	if os.Getenv("VERIF_PROP") != "C19" {
		t.Skip()
	}
	r := ev.Start("C19", "exploration")
	var (
		evals    int64
		accepted int64
		outcomes sync.Map
	)
	report := func(key, what string, replay any) {
		r.Violation(key, what, replay)
	}

	// ---- value -> bytes -> value, GBN packets.
	lengths := []int{0, 1, 2, 3, 255, 256, 65535, 1 << 20}
	valCases := 0
	for _, ln := range lengths {
		pl := payloadOf(ln)
		for seq := 0; seq < 256; seq++ {
			for fl := 0; fl < 4; fl++ {
				m := &gbn.PacketData{
					Seq: uint8(seq), FinalChunk: fl&1 == 1,
					IsPing: fl&2 == 2, Payload: pl,
				}
				b, err := m.Serialize()
				if err != nil {
					report("gbn.value-roundtrip/DATA/serialize-error", fmt.Sprintf("%s: %v", describe(m), err), describe(m))
					continue
				}
				var m2 gbn.Message
				p, pm := safely(func() { m2, err = gbn.Deserialize(b) })
				valCases++
				if p || err != nil || !msgEqual(m, m2) {
					report(fmt.Sprintf("gbn.value-roundtrip/DATA/len=%d", ln),
						fmt.Sprintf("%s serialises to %d bytes which deserialise to %v (err=%v panic=%v %s)", describe(m), len(b), descOrNil(m2), err, p, pm),
						map[string]any{"type": "DATA", "seq": seq, "flags": fl, "payload_len": ln})
				}
			}
		}
	}
	for v := 0; v < 256; v++ {
		for _, m := range []gbn.Message{
			&gbn.PacketACK{Seq: uint8(v)}, &gbn.PacketNACK{Seq: uint8(v)},
			&gbn.PacketSYN{N: uint8(v)}, &gbn.PacketFIN{}, &gbn.PacketSYNACK{},
		} {
			b, err := m.Serialize()
			var m2 gbn.Message
			if err == nil {
				m2, err = gbn.Deserialize(b)
			}
			valCases++
			if err != nil || !msgEqual(m, m2) {
				report(fmt.Sprintf("gbn.value-roundtrip/%T", m),
					fmt.Sprintf("%s -> %x -> %v (err=%v)", describe(m), b, descOrNil(m2), err),
					describe(m))
			}
		}
	}
	r.Sample(map[string]any{"kind": "value-roundtrip", "example": "DATA{seq=255 final=true ping=true len=65535}"})

	// ---- value -> bytes -> value, MsgData.
	for _, ln := range lengths {
		pl := payloadOf(ln)
		for v := 0; v < 256; v++ {
			m := mailbox.NewMsgData(uint8(v), pl)
			b, err := m.Serialize()
			m2 := mailbox.NewMsgData(0, nil)
			if err == nil {
				err = m2.Deserialize(b)
			}
			valCases++
			if err != nil || m2.ProtocolVersion() != uint8(v) || !bytes.Equal(m2.Payload, pl) {
				report(fmt.Sprintf("msgdata.value-roundtrip/len=%d", ln),
					fmt.Sprintf("MsgData{v=%d len=%d} -> %d bytes -> {v=%d len=%d} err=%v", v, ln, len(b), m2.ProtocolVersion(), len(m2.Payload), err),
					map[string]any{"version": v, "payload_len": ln})
			}
		}
	}
	// ---- histories of two: the bytes of a serialised message are kept (in
	// the resend queue, by the transport) while later messages are
	// serialised. Every ordered pair (A, B) over a set of messages of every
	// kind and of payload lengths on both sides of typical buffer sizes: A
	// is serialised, then B, and only then are A's bytes deserialised.
	type ser interface{ Serialize() ([]byte, error) }
	var pool []ser
	var poolDesc []string
	var poolCheck []func(b []byte) bool
	for _, ln := range []int{0, 1, 5, 64, 65, 1000, 70000} {
		pl := payloadOf(ln)
		for _, fl := range []int{0, 1} {
			m := &gbn.PacketData{Seq: uint8(ln + fl), FinalChunk: fl == 1, Payload: pl}
			pool = append(pool, m)
			poolDesc = append(poolDesc, describe(m))
			poolCheck = append(poolCheck, func(b []byte) bool {
				m2, err := gbn.Deserialize(b)
				return err == nil && msgEqual(m, m2)
			})
		}
		ver := uint8(ln % 7)
		md := mailbox.NewMsgData(ver, pl)
		pool = append(pool, md)
		poolDesc = append(poolDesc, fmt.Sprintf("MsgData{v=%d len=%d}", ver, ln))
		poolCheck = append(poolCheck, func(b []byte) bool {
			m2 := mailbox.NewMsgData(0, nil)
			return m2.Deserialize(b) == nil && m2.ProtocolVersion() == ver && bytes.Equal(m2.Payload, pl)
		})
	}
	for _, m := range []gbn.Message{&gbn.PacketACK{Seq: 7}, &gbn.PacketNACK{Seq: 9}, &gbn.PacketSYN{N: 20}, &gbn.PacketFIN{}, &gbn.PacketSYNACK{}} {
		pool = append(pool, m)
		poolDesc = append(poolDesc, describe(m))
		poolCheck = append(poolCheck, func(b []byte) bool {
			m2, err := gbn.Deserialize(b)
			return err == nil && msgEqual(m, m2)
		})
	}
	pairCases := 0
	for i := range pool {
		for j := range pool {
			sa, err := pool[i].Serialize()
			if err != nil {
				continue
			}
			if _, err = pool[j].Serialize(); err != nil {
				continue
			}
			pairCases++
			if !poolCheck[i](sa) {
				report("history/serialised-bytes-change-with-later-serialize",
					fmt.Sprintf("%s was serialised, then %s; the bytes obtained for the first no longer deserialise to it", poolDesc[i], poolDesc[j]),
					map[string]any{"first": poolDesc[i], "second": poolDesc[j]})
			}
		}
	}
	valCases += pairCases
	r.Set("serialize_pair_histories", pairCases)
	atomic.AddInt64(&evals, int64(valCases))

	// ---- bytes -> value -> bytes -> value, GBN: every string of length
	// <= 3, and 4-byte strings (first byte 0..7 quick; all 2^32 thorough).
	check := func(b []byte) {
		acc, fail := bytesRoundTrip(b)
		if acc {
			atomic.AddInt64(&accepted, 1)
		}
		if fail != "" && acc {
			report(fmt.Sprintf("gbn.bytes-roundtrip/type=%d/len=%d", b[0], len(b)), fail, fmt.Sprintf("%x", b))
		}
		cls := fmt.Sprintf("len=%d/acc=%v", len(b), acc)
		if len(b) > 0 {
			cls += fmt.Sprintf("/t=%d", b[0])
		}
		outcomes.LoadOrStore(cls, true)
	}
	check(nil)
	check([]byte{})
	for a := 0; a < 256; a++ {
		check([]byte{byte(a)})
	}
	parallel(256, func(a int) {
		for b := 0; b < 256; b++ {
			check([]byte{byte(a), byte(b)})
			for c := 0; c < 256; c++ {
				check([]byte{byte(a), byte(b), byte(c)})
			}
		}
	})
	atomic.AddInt64(&evals, 2+256+65536+1<<24)
	first := 8
	if r.Thorough() {
		first = 256
	}
	parallel(first*256, func(i int) {
		a, b := i/256, i%256
		buf := make([]byte, 4)
		var acc int64
		for c := 0; c < 256; c++ {
			for d := 0; d < 256; d++ {
				buf[0], buf[1], buf[2], buf[3] = byte(a), byte(b), byte(c), byte(d)
				ok, fail := bytesRoundTrip(buf)
				if ok {
					acc++
					if fail != "" {
						report(fmt.Sprintf("gbn.bytes-roundtrip/type=%d/len=4", a), fail, fmt.Sprintf("%x", buf))
					}
				}
			}
		}
		atomic.AddInt64(&accepted, acc)
		outcomes.LoadOrStore(fmt.Sprintf("len=4/acc=%v/t=%d", acc > 0, a), true)
	})
	atomic.AddInt64(&evals, int64(first)*1<<24)
	r.Sample(map[string]any{"kind": "bytes-roundtrip", "example": "02ff0201 -> DATA{seq=255 final=false ping=true len=0} -> 02ff0001 -> same value"})

	// ---- bytes -> value -> bytes -> value, MsgData: strings over a
	// small alphabet up to 7 bytes, and (length prefix, actual) products.
	alpha := []byte{0, 1, 2, 0x7f, 0x80, 0xff}
	var msgCases, msgAcc int64
	var rec func(prefix []byte, depth int)
	checkMsg := func(b []byte) {
		msgCases++
		m := mailbox.NewMsgData(0, nil)
		var err error
		p, pm := safely(func() { err = m.Deserialize(b) })
		if p || err != nil {
			_ = pm
			return
		}
		msgAcc++
		ser, err := m.Serialize()
		m2 := mailbox.NewMsgData(0, nil)
		if err == nil {
			err = m2.Deserialize(ser)
		}
		if err != nil || m2.ProtocolVersion() != m.ProtocolVersion() || !bytes.Equal(m.Payload, m2.Payload) {
			report("msgdata.bytes-roundtrip", fmt.Sprintf("bytes %x -> {v=%d,len=%d} -> %x -> {v=%d,len=%d} err=%v",
				trunc(b), m.ProtocolVersion(), len(m.Payload), trunc(ser), m2.ProtocolVersion(), len(m2.Payload), err), fmt.Sprintf("%x", trunc(b)))
		}
	}
	rec = func(prefix []byte, depth int) {
		checkMsg(prefix)
		if depth == 0 {
			return
		}
		for _, a := range alpha {
			rec(append(append([]byte{}, prefix...), a), depth-1)
		}
	}
	rec(nil, 7)
	sizes := []int{0, 1, 2, 3, 4, 5, 6, 16, 255, 256, 65535, 65536, 70000}
	prefixes := []uint32{0, 1, 2, 3, 4, 5, 6, 16, 255, 256, 65535, 65536, 70000, 1<<31 - 1, 1 << 31, 1<<32 - 1}
	for _, actual := range sizes {
		for _, pre := range prefixes {
			b := make([]byte, 5+actual)
			b[0] = 3
			binary.BigEndian.PutUint32(b[1:5], pre)
			for i := 5; i < len(b); i++ {
				b[i] = byte(i)
			}
			checkMsg(b)
		}
	}
	atomic.AddInt64(&evals, msgCases)
	atomic.AddInt64(&accepted, msgAcc)

	n := 0
	outcomes.Range(func(k, v any) bool { n++; return true })
	r.Set("evaluations", evals)
	r.Set("distinct_nontrivial", n)
	r.Set("accepted_byte_strings", accepted)
	r.Set("rule", "value->bytes->value: all 6 GBN packet types x all 256 values of each one-byte field x both flags x payload lengths {0,1,2,3,255,256,65535,1MiB}; MsgData x 256 versions x same lengths. bytes->value->bytes->value: every byte string of length 0..3, every 4-byte string with first byte in 0..7 (quick) or all 2^32 (thorough); MsgData: every string of length <= 7 over {00,01,02,7f,80,ff} and (length-prefix, actual-length) products. distinct_nontrivial = distinct (length, accepted?, type byte) classes observed.")
	r.Set("exhaustive", true)
	r.Assume("payload bytes beyond the listed lengths and fill pattern are not enumerated; nil and empty payloads are identified")
	exitCode = r.Finish()
}

func descOrNil(m gbn.Message) string {
	if m == nil {
		return "<nil>"
	}
	return describe(m)
}

func trunc(b []byte) []byte {
	if len(b) > 24 {
		return b[:24]
	}
	return b
}

// TestC07dec is the decoder part of C07: no byte string makes a decoder
// panic.
func TestC07dec(t *testing.T) {
	if os.Getenv("VERIF_PROP") != "C07" {
		t.Skip()
	}
	r := ev.StartPart("C07", "exploration", "decoders")
	var evals int64
	var classes sync.Map

	// gbn.Deserialize: every string of length <= 3; 4-byte strings with
	// first byte 0..7 (quick) or all 2^32 (thorough).
	gbnCase := func(b []byte) {
		var err error
		var m gbn.Message
		p, pm := safely(func() { m, err = gbn.Deserialize(b) })
		cls := fmt.Sprintf("gbn/len=%d/ok=%v", len(b), err == nil && !p)
		if len(b) > 0 {
			cls += fmt.Sprintf("/t=%d", b[0])
		}
		classes.LoadOrStore(cls, true)
		if p {
			typ := -1
			if len(b) > 0 {
				typ = int(b[0])
			}
			r.Violation(fmt.Sprintf("decoder/gbn.Deserialize/panic/type=%d/len=%d", typ, len(b)),
				fmt.Sprintf("gbn.Deserialize(%x) panics: %s", b, pm), fmt.Sprintf("%x", b))
		}
		_ = m
	}
	gbnCase(nil)
	for a := 0; a < 256; a++ {
		gbnCase([]byte{byte(a)})
	}
	parallel(256, func(a int) {
		for b := 0; b < 256; b++ {
			gbnCase([]byte{byte(a), byte(b)})
			for c := 0; c < 256; c++ {
				gbnCase([]byte{byte(a), byte(b), byte(c)})
			}
		}
	})
	atomic.AddInt64(&evals, 1+256+65536+1<<24)
	first := 8
	if r.Thorough() {
		first = 256
	}
	parallel(first*256, func(i int) {
		a, b := i/256, i%256
		buf := make([]byte, 4)
		for c := 0; c < 256; c++ {
			for d := 0; d < 256; d++ {
				buf[0], buf[1], buf[2], buf[3] = byte(a), byte(b), byte(c), byte(d)
				p, pm := safely(func() { _, _ = gbn.Deserialize(buf) })
				if p {
					r.Violation(fmt.Sprintf("decoder/gbn.Deserialize/panic/type=%d/len=4", a),
						fmt.Sprintf("gbn.Deserialize(%x) panics: %s", buf, pm), fmt.Sprintf("%x", buf))
				}
			}
		}
		classes.LoadOrStore(fmt.Sprintf("gbn/len=4/t=%d", a), true)
	})
	atomic.AddInt64(&evals, int64(first)*1<<24)
	r.Sample(map[string]any{"decoder": "gbn.Deserialize", "input": "020001", "note": "3-byte DATA packet"})

	// MsgData.Deserialize: strings <= 7 bytes over a 6-symbol alphabet and
	// (length prefix, actual length) products.
	alpha := []byte{0, 1, 2, 0x7f, 0x80, 0xff}
	msgCase := func(b []byte) {
		atomic.AddInt64(&evals, 1)
		m := mailbox.NewMsgData(0, nil)
		var err error
		p, pm := safely(func() { err = m.Deserialize(b) })
		classes.LoadOrStore(fmt.Sprintf("msgdata/len=%d/ok=%v", min(len(b), 8), err == nil && !p), true)
		if p {
			r.Violation(fmt.Sprintf("decoder/MsgData.Deserialize/panic/len=%d", len(b)),
				fmt.Sprintf("MsgData.Deserialize(%x) panics: %s", trunc(b), pm), fmt.Sprintf("%x", trunc(b)))
		}
		if err == nil && !p && len(m.Payload) > len(b) {
			r.Violation("decoder/MsgData.Deserialize/overread", fmt.Sprintf("payload %d bytes from %d input bytes", len(m.Payload), len(b)), fmt.Sprintf("%x", trunc(b)))
		}
	}
	var rec func(prefix []byte, depth int)
	rec = func(prefix []byte, depth int) {
		msgCase(prefix)
		if depth == 0 {
			return
		}
		for _, a := range alpha {
			rec(append(append([]byte{}, prefix...), a), depth-1)
		}
	}
	rec(nil, 7)
	for _, actual := range []int{0, 1, 2, 3, 4, 5, 6, 16, 255, 256, 65535, 65536, 70000} {
		for _, pre := range []uint32{0, 1, 2, 3, 4, 5, 6, 16, 255, 256, 65535, 65536, 70000, 1<<31 - 1, 1 << 31, 1<<32 - 1} {
			b := make([]byte, 5+actual)
			binary.BigEndian.PutUint32(b[1:5], pre)
			msgCase(b)
		}
	}
	r.Sample(map[string]any{"decoder": "MsgData.Deserialize", "input": "00ffffffff", "note": "length prefix 2^32-1 with no payload"})

	// The websocket JSON envelope: stripJSONWrapper followed by the
	// protojson unmarshalling of a CipherBox, every string of up to 6
	// tokens over a JSON-ish alphabet.
	toks := []string{"{", "}", "\"result\":", "\"error\":", "\"msg\":", "\"desc\":", "\"AAEC\"", "null", ",", "\\", "\"", "[", "]", "1e999", "\"stream_id\":"}
	depth := 4
	if r.Thorough() {
		depth = 5
	}
	var jsonN int64
	var recJ func(prefix string, d int)
	jsonCase := func(s string) {
		jsonN++
		var un string
		var err error
		p, pm := safely(func() { un, err = mailbox.VerifStripJSONWrapper(s) })
		if p {
			r.Violation("decoder/stripJSONWrapper/panic", fmt.Sprintf("stripJSONWrapper(%q) panics: %s", s, pm), s)
			return
		}
		classes.LoadOrStore(fmt.Sprintf("json/strip-ok=%v", err == nil), true)
		if err != nil {
			return
		}
		p, pm = safely(func() { _, err = mailbox.VerifUnmarshalCipherBox([]byte(un)) })
		if p {
			r.Violation("decoder/unmarshalCipherBox/panic", fmt.Sprintf("unmarshal of %q (from %q) panics: %s", un, s, pm), s)
		}
		classes.LoadOrStore(fmt.Sprintf("json/unmarshal-ok=%v", err == nil), true)
	}
	recJ = func(prefix string, d int) {
		jsonCase(prefix)
		if d == 0 {
			return
		}
		for _, t := range toks {
			recJ(prefix+t, d-1)
		}
	}
	recJ("", depth)
	// wrapped forms
	for _, inner := range []string{"", "{}", "{\"msg\":\"AAEC\"}", "{\"msg\":1}", "{\"msg\":\"@@\"}", "{\"desc\":{\"stream_id\":\"AA==\"},\"msg\":\"AAEC\"}", "[", "nul"} {
		jsonCase("{\"result\":" + inner + "}")
		jsonCase("{\"error\":" + inner + "}")
		jsonCase("{\"result\":" + inner)
	}
	atomic.AddInt64(&evals, jsonN)
	r.Sample(map[string]any{"decoder": "stripJSONWrapper+protojson", "input": "{\"result\":{\"msg\":\"AAEC\"}}"})

	n := 0
	classes.Range(func(k, v any) bool { n++; return true })
	r.Set("evaluations", evals)
	r.Set("distinct_nontrivial", n)
	r.Set("rule", "gbn.Deserialize on every byte string of length 0..3 and on 4-byte strings (first byte 0..7 quick, all 2^32 thorough); MsgData.Deserialize on every string of length <= 7 over {00,01,02,7f,80,ff} and on (length prefix, actual length) products up to 70000 / 2^32-1; stripJSONWrapper + CipherBox unmarshalling on every concatenation of up to 4 (quick) / 5 (thorough) tokens of a 15-token JSON alphabet. distinct_nontrivial = distinct (decoder, length, type byte, accepted?) classes")
	r.Set("exhaustive", true)
	exitCode = r.Finish()
}
