package seq

import (
	"fmt"
	"os"
	"sort"
	"strings"
	"sync"
	"testing"
	"testing/synctest"
	"time"

	"github.com/lightninglabs/lightning-node-connect/gbn"

	"verif/lib/ev"
)

type tmCfg struct {
	name   string
	static time.Duration
	mult   int
	freq   int
	boost  float32
}

func (c tmCfg) opts() []gbn.TimeoutOptions {
	if c.static > 0 {
		return []gbn.TimeoutOptions{gbn.WithStaticResendTimeout(c.static), gbn.WithBoostPercent(c.boost)}
	}
	return []gbn.TimeoutOptions{
		gbn.WithResendMultiplier(c.mult), gbn.WithTimeoutUpdateFrequency(c.freq),
		gbn.WithBoostPercent(c.boost),
	}
}

type tmEvent struct {
	kind   string // sent recv sleep
	typ    string // SYN SYNACK DATA ACK NACK FIN
	seq    uint8
	resent bool
	d      time.Duration
}

func (e tmEvent) String() string {
	switch e.kind {
	case "sleep":
		return "sleep(" + e.d.String() + ")"
	case "sent":
		r := ""
		if e.resent {
			r = ",resent"
		}
		if e.typ == "DATA" {
			return fmt.Sprintf("Sent(DATA%d%s)", e.seq, r)
		}
		return "Sent(" + e.typ + r + ")"
	}
	if e.typ == "ACK" {
		return fmt.Sprintf("Recv(ACK%d)", e.seq)
	}
	return "Recv(" + e.typ + ")"
}

func (e tmEvent) msg() gbn.Message {
	switch e.typ {
	case "SYN":
		return &gbn.PacketSYN{N: 2}
	case "SYNACK":
		return &gbn.PacketSYNACK{}
	case "DATA":
		return &gbn.PacketData{Seq: e.seq}
	case "ACK":
		return &gbn.PacketACK{Seq: e.seq}
	case "NACK":
		return &gbn.PacketNACK{Seq: e.seq}
	case "FIN":
		return &gbn.PacketFIN{}
	}
	panic("bad type")
}

var tmAlphabet = []tmEvent{
	{kind: "sent", typ: "SYN"}, {kind: "sent", typ: "SYN", resent: true},
	{kind: "sent", typ: "DATA", seq: 0}, {kind: "sent", typ: "DATA", seq: 0, resent: true},
	{kind: "sent", typ: "DATA", seq: 1}, {kind: "sent", typ: "DATA", seq: 1, resent: true},
	{kind: "recv", typ: "SYN"}, {kind: "recv", typ: "SYNACK"},
	{kind: "recv", typ: "ACK", seq: 0}, {kind: "recv", typ: "ACK", seq: 1},
	{kind: "recv", typ: "DATA"}, {kind: "recv", typ: "NACK"}, {kind: "recv", typ: "FIN"},
	{kind: "sleep", d: 150 * time.Millisecond}, {kind: "sleep", d: 400 * time.Millisecond},
	{kind: "sleep", d: time.Second}, {kind: "sleep", d: 2500 * time.Millisecond},
}

// tracker is the harness's own bookkeeping of which round-trip samples are
// eligible (packet first-sent and not retransmitted since).
type tracker struct {
	syn       time.Time
	data      map[uint8]time.Time
	lastBoost time.Time // last boost or base update
}

func rel(now, t time.Time) string {
	if t.IsZero() {
		return "-"
	}
	return now.Sub(t).String()
}

func canon(now time.Time, st gbn.VerifTMState, tr *tracker) string {
	var b strings.Builder
	fmt.Fprintf(&b, "%v|%v|%v|%v|%d|%s|%v|%d|%s|%d|", st.Static, st.HasSetDynamic, st.ResendTimeout,
		st.ResendOriginal, st.ResendBoostCount, rel(now, st.ResendLastBoost), st.HandshakeOriginal,
		st.HandshakeBoostCount, rel(now, st.LatestSentSYN), st.ResponseCounter)
	for i, s := range st.SentSeqs {
		fmt.Fprintf(&b, "%d@%s,", s, rel(now, st.SentTimes[i]))
	}
	fmt.Fprintf(&b, "|T:%s|", rel(now, tr.syn))
	var ks []int
	for k := range tr.data {
		ks = append(ks, int(k))
	}
	sort.Ints(ks)
	for _, k := range ks {
		fmt.Fprintf(&b, "%d@%s,", k, rel(now, tr.data[uint8(k)]))
	}
	fmt.Fprintf(&b, "|%s", rel(now, tr.lastBoost))
	return b.String()
}

// replay runs hist on a fresh manager (inside the caller's bubble), checks the
// oracles on the last event and returns the canonical state reached.
func replay(cfg tmCfg, hist []tmEvent, fail func(key, what string)) string {
	m := gbn.NewTimeOutManager(nil, cfg.opts()...)
	tr := &tracker{data: map[uint8]time.Time{}}
	tr.lastBoost = time.Time{}
	const floor = time.Second
	for i, e := range hist {
		last := i == len(hist)-1
		pre := m.VerifState()
		preResend := m.GetResendTimeout()
		preHS := m.GetHandshakeTimeout()
		var sample time.Time // eligible sample this event may complete
		switch e.kind {
		case "sleep":
			time.Sleep(e.d)
		case "sent":
			m.Sent(e.msg(), e.resent)
		case "recv":
			if e.typ == "SYN" || e.typ == "SYNACK" {
				sample = tr.syn
			}
			if e.typ == "ACK" {
				sample = tr.data[e.seq]
			}
			m.Received(e.msg())
		}
		now := time.Now()
		post := m.VerifState()
		resend := m.GetResendTimeout()
		hs := m.GetHandshakeTimeout()

		if last {
			ctx := fmt.Sprintf("config %s, history %v", cfg.name, hist)
			if cfg.static > 0 {
				if resend != cfg.static || preResend != cfg.static {
					fail("static-changed", fmt.Sprintf("%s: static resend timeout %v became %v", ctx, cfg.static, resend))
				}
			} else {
				if resend < floor {
					fail("below-floor", fmt.Sprintf("%s: adaptive resend timeout %v is below the %v floor", ctx, resend, floor))
				}
				if post.ResendOriginal != pre.ResendOriginal || (post.HasSetDynamic && !pre.HasSetDynamic) {
					// the base was recomputed
					if sample.IsZero() {
						fail("update-without-sample/"+e.kind+e.typ,
							fmt.Sprintf("%s: base resend timeout changed %v -> %v on %v although no eligible (never retransmitted) sample was pending for it",
								ctx, pre.ResendOriginal, post.ResendOriginal, e))
					} else {
						want := time.Duration(cfg.mult) * now.Sub(sample)
						if want < floor {
							want = floor
						}
						if post.ResendOriginal != want {
							fail("update-value", fmt.Sprintf("%s: base became %v, expected max(1s, %d x %v) = %v",
								ctx, post.ResendOriginal, cfg.mult, now.Sub(sample), want))
						}
					}
					if post.ResendBoostCount != 0 || resend != post.ResendOriginal {
						fail("update-keeps-boost", fmt.Sprintf("%s: after a fresh sample the timeout is %v with boost count %d, expected the measured value %v",
							ctx, resend, post.ResendBoostCount, post.ResendOriginal))
					}
				}
				if post.ResendBoostCount > pre.ResendBoostCount {
					okEvent := e.kind == "sent" && e.typ == "DATA" && e.resent
					if !okEvent {
						fail("boost-without-resend/"+e.String(), fmt.Sprintf("%s: boost count rose %d -> %d on %v", ctx, pre.ResendBoostCount, post.ResendBoostCount, e))
					}
					if post.ResendBoostCount != pre.ResendBoostCount+1 {
						fail("boost-step", fmt.Sprintf("%s: boost count jumped %d -> %d", ctx, pre.ResendBoostCount, post.ResendBoostCount))
					}
					if !tr.lastBoost.IsZero() && now.Sub(tr.lastBoost) < pre.ResendOriginal {
						fail("boost-too-often", fmt.Sprintf("%s: boosted again %v after the previous boost/update, base interval is %v",
							ctx, now.Sub(tr.lastBoost), pre.ResendOriginal))
					}
				}
				if resend > preResend && post.ResendBoostCount <= pre.ResendBoostCount && post.ResendOriginal == pre.ResendOriginal {
					fail("grew-without-boost", fmt.Sprintf("%s: resend timeout grew %v -> %v on %v without a boost or a new sample", ctx, preResend, resend, e))
				}
				wantT := post.ResendOriginal + time.Duration(float64(post.ResendOriginal)*float64(cfg.boost)*float64(post.ResendBoostCount))
				if d := resend - wantT; d > time.Microsecond || d < -time.Microsecond {
					fail("value-formula", fmt.Sprintf("%s: GetResendTimeout=%v, base %v x (1 + %.2f x %d) = %v", ctx, resend, post.ResendOriginal, cfg.boost, post.ResendBoostCount, wantT))
				}
			}
			if hs < preHS {
				fail("handshake-shrank", fmt.Sprintf("%s: handshake timeout shrank %v -> %v", ctx, preHS, hs))
			}
		}

		// tracker update (independent of the implementation)
		if cfg.static == 0 {
			switch {
			case e.kind == "sent" && e.typ == "SYN":
				if e.resent {
					tr.syn = time.Time{}
				} else {
					tr.syn = now
				}
			case e.kind == "sent" && e.typ == "DATA":
				if e.resent {
					delete(tr.data, e.seq)
				} else {
					tr.data[e.seq] = now
				}
			case e.kind == "recv" && (e.typ == "SYN" || e.typ == "SYNACK"):
				tr.syn = time.Time{}
			case e.kind == "recv" && e.typ == "ACK":
				delete(tr.data, e.seq)
			}
			if post.ResendBoostCount > pre.ResendBoostCount || post.ResendOriginal != pre.ResendOriginal ||
				(post.HasSetDynamic && !pre.HasSetDynamic) || !post.ResendLastBoost.Equal(pre.ResendLastBoost) {
				tr.lastBoost = now
			}
		}
		if last {
			return canon(now, post, tr)
		}
	}
	return canon(time.Now(), m.VerifState(), tr)
}

// TestC20: explicit-state breadth-first search over timeout-manager histories
// under a virtual clock.
func TestC20(t *testing.T) {
	if os.Getenv("VERIF_PROP") != "C20" {
		t.Skip()
	}
	r := ev.StartPart("C20", "model_checking", os.Getenv("VERIF_PART"))
	depth := 7
	if r.Thorough() {
		depth = 9
	}
	var cfgs []tmCfg
	for _, mult := range []int{1, 5} {
		for _, freq := range []int{1, 2, 100} {
			for _, boost := range []float32{0.5, 1.0} {
				cfgs = append(cfgs, tmCfg{name: fmt.Sprintf("adaptive(mult=%d,freq=%d,boost=%.1f)", mult, freq, boost),
					mult: mult, freq: freq, boost: boost})
			}
		}
	}
	cfgs = append(cfgs, tmCfg{name: "static(300ms)", static: 300 * time.Millisecond, boost: 0.5},
		tmCfg{name: "static(2s)", static: 2 * time.Second, boost: 0.5})

	var (
		mu          sync.Mutex
		totalStates int64
		totalTrans  int64
		perCfg      []map[string]any
		deadline    = time.Now().Add(10 * time.Minute)
	)
	if !r.Thorough() {
		deadline = time.Now().Add(3 * time.Minute)
	}
	fail := func(key, what string) {
		r.Violation("tm/"+key, what, what)
	}
	for _, cfg := range cfgs {
		seen := map[string]bool{}
		frontier := [][]tmEvent{nil}
		states, trans := 1, 0
		maxDepth := 0
		truncated := false
		for d := 0; d < depth && len(frontier) > 0; d++ {
			type succ struct {
				hist []tmEvent
				key  string
			}
			results := make([][]succ, len(frontier))
			// Each worker goroutine owns one bubble and replays many
			// histories in it (time only ever moves forward there, and
			// every replay uses a fresh manager and relative times).
			nw := 16
			var wg sync.WaitGroup
			next := make(chan int, len(frontier))
			for i := range frontier {
				next <- i
			}
			close(next)
			for w := 0; w < nw; w++ {
				wg.Add(1)
				go func() {
					defer wg.Done()
					synctest.Test(t, func(t *testing.T) {
						for i := range next {
							if time.Now().IsZero() {
								return
							}
							h := frontier[i]
							for _, e := range tmAlphabet {
								nh := append(append([]tmEvent{}, h...), e)
								k := replay(cfg, nh, fail)
								results[i] = append(results[i], succ{nh, k})
							}
						}
					})
				}()
			}
			wg.Wait()
			var nextFrontier [][]tmEvent
			for i := range results {
				for _, s := range results[i] {
					trans++
					if !seen[s.key] {
						seen[s.key] = true
						states++
						nextFrontier = append(nextFrontier, s.hist)
					}
				}
			}
			frontier = nextFrontier
			maxDepth = d + 1
			if realNow().After(deadline) {
				truncated = true
				break
			}
		}
		mu.Lock()
		totalStates += int64(states)
		totalTrans += int64(trans)
		perCfg = append(perCfg, map[string]any{"config": cfg.name, "states": states, "transitions": trans,
			"depth_completed": maxDepth, "truncated": truncated})
		mu.Unlock()
		if truncated {
			r.NotExhaustive(fmt.Sprintf("%s: wall-clock budget reached at depth %d", cfg.name, maxDepth))
		}
		fmt.Printf("config %-40s states=%d transitions=%d depth=%d\n", cfg.name, states, trans, maxDepth)
	}
	r.Sample(map[string]any{"config": cfgs[1].name, "history": "Sent(DATA0) sleep(400ms) Sent(DATA0,resent) Recv(ACK0) Sent(DATA0) sleep(150ms) Recv(ACK0)",
		"note": "an ACK for a sequence number that was resent, then reused"})
	r.Sample(map[string]any{"alphabet": fmt.Sprint(tmAlphabet)})
	r.Set("states", totalStates)
	r.Set("transitions", totalTrans)
	r.Set("traces_validated_against_impl", totalTrans)
	r.Set("evaluations", totalTrans)
	r.Set("distinct_nontrivial", totalStates)
	r.Set("per_config", perCfg)
	r.Set("depth", depth)
	r.Set("rule", "explicit-state BFS over event histories of the real TimeoutManager under a virtual clock (synctest bubble): alphabet Sent(SYN|DATA0|DATA1, first|resent), Recv(SYN|SYNACK|ACK0|ACK1|DATA|NACK|FIN), sleep(150ms|400ms|1s|2.5s); a state is the manager's internal tuple plus the harness's own sample bookkeeping with all times relative to now; successor = replay of the shortest history on a fresh manager + one event; the invariants are evaluated on every transition")
	r.Assume("the booster multiplies in float32: equality with the formula is checked to within 1 microsecond")
	r.Assume("inter-event times outside {0, 150ms, 400ms, 1s, 2.5s} and sequence numbers other than 0,1 are not enumerated")
	exitCode = r.Finish()
}

func realNow() time.Time { return time.Now() }
