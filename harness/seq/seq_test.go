// Package seq holds the bounded-exhaustive / explicit-state checks of the
// sequential GBN components: the send window arithmetic for every sequence
// space (parts of C01, C09, C07) and the timeout manager (C20).
package seq

import (
	"fmt"
	"os"
	"runtime"
	"sync"
	"sync/atomic"
	"testing"

	"github.com/lightninglabs/lightning-node-connect/gbn"

	"verif/lib/ev"
)

var exitCode = 2

func TestMain(m *testing.M) {
	c := m.Run()
	if c != 0 && exitCode == 0 {
		exitCode = 2
	}
	os.Exit(exitCode)
}

func parallel(n int, f func(i int)) {
	w := runtime.NumCPU()
	var next int64 = -1
	var wg sync.WaitGroup
	for k := 0; k < w; k++ {
		wg.Add(1)
		go func() {
			defer wg.Done()
			for {
				i := int(atomic.AddInt64(&next, 1))
				if i >= n {
					return
				}
				f(i)
			}
		}()
	}
	wg.Wait()
}

// model is the reference window on unbounded integers: [B, T).
type model struct {
	B, T int
	s, n int
}

func (m *model) add() { m.T++ }

func (m *model) ack(v int) bool {
	if m.T == m.B {
		return false
	}
	for i := m.B; i < m.T; i++ {
		if i%m.s == v {
			m.B = i + 1
			return true
		}
	}
	return false
}

func (m *model) nack(v int) (bool, bool) {
	if v == m.T%m.s {
		m.B = m.T
		return false, true
	}
	for i := m.B; i < m.T; i++ {
		if i%m.s == v {
			bumped := i != m.B
			m.B = i
			return true, bumped
		}
	}
	return false, false
}

func safely(f func()) (p bool, msg string) {
	defer func() {
		if r := recover(); r != nil {
			p, msg = true, fmt.Sprint(r)
		}
	}()
	f()
	return
}

// TestWindow: for every sequence space s = 2..255, every window position and
// occupancy and every incoming ACK / NACK value 0..255, the real queue agrees
// with the unbounded-integer model and stays inside its invariants.
func TestWindow(t *testing.T) {
	prop := os.Getenv("VERIF_PROP")
	if prop != "C01" && prop != "C09" && os.Getenv("VERIF_WINDOW") == "" {
		t.Skip()
	}
	if prop == "" {
		prop = "C09"
	}
	r := ev.StartPart(prop, "exploration", "window")
	var evals, nontrivial int64
	var mu sync.Mutex
	classes := map[string]bool{}
	tm := gbn.NewTimeOutManager(nil)

	report := func(key, what string, replay any) { r.Violation(key, what, replay) }

	// Part 1: single steps from every (s, base, size) state.
	parallel(254, func(k int) {
		s := k + 2
		n := s - 1
		q := gbn.VerifNewQueue(uint8(s), tm, func(*gbn.PacketData) error { return nil })
		var bases []int
		if r.Thorough() || s <= 16 {
			for b := 0; b < s; b++ {
				bases = append(bases, b)
			}
		} else {
			bases = []int{0, 1, s / 2, s - 2, s - 1}
		}
		var ev64, nt int64
		local := map[string]bool{}
		var cur [5]int
		defer func() {
			// one recover per sequence space instead of one closure per
			// step; the rest of this s is not explored after a panic
			if rec := recover(); rec != nil {
				report(fmt.Sprintf("window/panic/%c", byte(cur[3])),
					fmt.Sprintf("s=%d base=%d size=%d %c(%d) panics: %v", cur[0], cur[1], cur[2], byte(cur[3]), cur[4], rec),
					map[string]any{"s": cur[0], "base": cur[1], "size": cur[2], "op": string(byte(cur[3])), "value": cur[4]})
			}
		}()
		for _, b := range bases {
			for size := 0; size <= n; size++ {
				for v := 0; v < 256; v++ {
					for _, kind := range []byte{'A', 'N'} {
						// Window [B, B+size) with B = b (any representative with
						// B mod s = b behaves the same).
						m := &model{B: b, T: b + size, s: s, n: n}
						q.VerifSetWindow(uint8(b), uint8((b+size)%s))
						var got1, got2, want1, want2 bool
						cur = [5]int{s, b, size, int(kind), v}
						p, pm := false, ""
						if kind == 'A' {
							got1 = q.ProcessACK(uint8(v))
						} else {
							got1, got2 = q.ProcessNACK(uint8(v))
						}
						if kind == 'A' {
							want1 = m.ack(v)
						} else {
							want1, want2 = m.nack(v)
						}
						ev64++
						if p {
							report(fmt.Sprintf("window/panic/%c", kind),
								fmt.Sprintf("s=%d base=%d size=%d %c(%d) panics: %s", s, b, size, kind, v, pm),
								map[string]any{"s": s, "base": b, "size": size, "op": string(kind), "value": v})
							continue
						}
						gb, gt, gs := int(q.Base()), int(q.Top()), int(q.Size())
						if gb >= s || gt >= s || gs > n {
							report(fmt.Sprintf("window/out-of-range/%c", kind),
								fmt.Sprintf("s=%d base=%d size=%d %c(%d): base=%d top=%d size=%d leave the valid range", s, b, size, kind, v, gb, gt, gs),
								map[string]any{"s": s, "base": b, "size": size, "op": string(kind), "value": v})
							continue
						}
						if gb != m.B%s || gt != m.T%s || gs != m.T-m.B || got1 != want1 || got2 != want2 {
							cls := "in-window"
							if v >= s {
								cls = "value>=s"
							}
							report(fmt.Sprintf("window/model-mismatch/%c/%s", kind, cls),
								fmt.Sprintf("s=%d base=%d size=%d %c(%d): queue -> base=%d top=%d size=%d ret=(%v,%v); model -> base=%d top=%d size=%d ret=(%v,%v)",
									s, b, size, kind, v, gb, gt, gs, got1, got2, m.B%s, m.T%s, m.T-m.B, want1, want2),
								map[string]any{"s": s, "base": b, "size": size, "op": string(kind), "value": v})
							continue
						}
						if want1 || want2 {
							nt++
						}
						local[fmt.Sprintf("%c/moved=%v/%v", kind, want1, want2)] = true
					}
				}
			}
		}
		// receiver side: (recvSeq+1) % s stays inside the space and
		// visits every sequence number in order.
		seq := uint8(0)
		for i := 0; i < 2*s+3; i++ {
			next := (seq + 1) % uint8(s)
			if int(next) != (i+1)%s {
				report("window/recvseq", fmt.Sprintf("s=%d: receiver sequence %d -> %d, expected %d", s, seq, next, (i+1)%s), s)
			}
			seq = next
		}
		atomic.AddInt64(&evals, ev64)
		atomic.AddInt64(&nontrivial, nt)
		mu.Lock()
		for c := range local {
			classes[c] = true
		}
		mu.Unlock()
	})
	r.Sample(map[string]any{"s": 3, "base": 2, "size": 2, "op": "N", "value": 1, "expect": "NACK(top) empties the window"})

	// Part 2: every operation sequence up to a depth for small s, on a
	// queue driven only through addPacket / processACK / processNACK
	// (states reached from non-initial states for free).
	depth := 6
	if r.Thorough() {
		depth = 8
	}
	var seqs int64
	type op struct {
		k byte
		v int
	}
	type job struct {
		s    int
		hist []op
	}
	var jobs []job
	alphaFor := func(s int) []op {
		alpha := []op{{'+', 0}}
		for v := 0; v <= s; v++ { // includes one value outside the space
			alpha = append(alpha, op{'A', v}, op{'N', v})
		}
		return alpha
	}
	for s := 2; s <= 4; s++ {
		for _, a := range alphaFor(s) {
			for _, b := range alphaFor(s) {
				jobs = append(jobs, job{s, []op{a, b}})
			}
		}
	}
	parallel(len(jobs), func(ji int) {
		s := jobs[ji].s
		n := s - 1
		alpha := alphaFor(s)
		var local int64
		var rec func(hist []op)
		rec = func(hist []op) {
			q := gbn.VerifNewQueue(uint8(s), tm, func(*gbn.PacketData) error { return nil })
			m := &model{s: s, n: n}
			for _, o := range hist {
				switch o.k {
				case '+':
					if m.T-m.B >= n {
						// the send loop never adds to a full window
						return
					}
					q.AddPacket(&gbn.PacketData{})
					m.add()
				case 'A':
					g := q.ProcessACK(uint8(o.v))
					if w := m.ack(o.v); w != g {
						report("window/seq/ack-result", fmt.Sprintf("s=%d history %v: ProcessACK returned %v, model %v", s, hist, g, w), fmt.Sprint(hist))
						return
					}
				case 'N':
					g1, g2 := q.ProcessNACK(uint8(o.v))
					w1, w2 := m.nack(o.v)
					if g1 != w1 || g2 != w2 {
						report("window/seq/nack-result", fmt.Sprintf("s=%d history %v: ProcessNACK returned (%v,%v), model (%v,%v)", s, hist, g1, g2, w1, w2), fmt.Sprint(hist))
						return
					}
				}
				if int(q.Base()) != m.B%s || int(q.Top()) != m.T%s || int(q.Size()) != m.T-m.B || int(q.Size()) > n {
					report("window/seq/state", fmt.Sprintf("s=%d history %v: queue base=%d top=%d size=%d, model base=%d top=%d size=%d",
						s, hist, q.Base(), q.Top(), q.Size(), m.B%s, m.T%s, m.T-m.B), fmt.Sprint(hist))
					return
				}
			}
			local++
			if len(hist) == depth {
				return
			}
			for _, o := range alpha {
				rec(append(append([]op{}, hist...), o))
			}
		}
		rec(jobs[ji].hist)
		atomic.AddInt64(&seqs, local)
	})
	atomic.AddInt64(&evals, seqs)
	r.Sample(map[string]any{"s": 3, "history": "+ + A(1) + N(0) ...", "depth": depth})

	r.Set("evaluations", evals)
	r.Set("distinct_nontrivial", nontrivial)
	r.Set("operation_sequences", seqs)
	r.Set("outcome_classes", len(classes))
	r.Set("rule", "part 1: for every sequence space s=2..255, every window base (all for s<=16 or thorough; {0,1,s/2,s-2,s-1} otherwise), every occupancy 0..n and every ACK and NACK value 0..255, one step of the real queue against the unbounded-integer window model, plus range invariants; part 2: every sequence of addPacket/ACK(v)/NACK(v) up to the stated depth for s=2,3,4 on a queue driven only through its own operations; distinct_nontrivial = single steps that moved the window")
	r.Set("exhaustive", true)
	exitCode = r.Finish()
}
