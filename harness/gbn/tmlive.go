package gbnh

import (
	"bytes"
	"time"

	"github.com/lightninglabs/lightning-node-connect/gbn"
)

// tmLive is the per-endpoint bookkeeping of monTimeoutSamples.
type tmLive struct {
	known      bool
	base       time.Duration
	boosts     int
	sinceOrder int // order of the last observed base change (or of the start of the watch)
	wireSeen   int // wire records of this endpoint already looked at for retransmissions
}

// monTimeoutSamples is C20 on the live connection (the BFS over the
// TimeoutManager alone cannot see how the connection feeds it): in adaptive
// mode the base of the resend timeout is recomputed only from the round trip
// of a packet that was not retransmitted. Judged on the wire: whenever the
// base of an endpoint changes in the data phase, some ACK that reached the
// endpoint since the previous change must be for a DATA packet that, up to
// the delivery of that ACK, had been put on the wire exactly once (scenario
// payloads are distinct per message and keepalive is off, so equal bytes
// under one sequence number are the same packet); and the timeout is never
// below the one-second floor.
func monTimeoutSamples(w *World) {
	if !w.handshakeDone() {
		return
	}
	if w.tm == nil {
		w.tm = map[string]*tmLive{}
	}
	for _, e := range []*Endpoint{w.C, w.S} {
		if e.Conn == nil {
			continue
		}
		st := e.Conn.VerifTimeoutManager().VerifState()
		if st.Static {
			continue
		}
		tl := w.tm[e.Name]
		if tl == nil {
			tl = &tmLive{}
			w.tm[e.Name] = tl
		}
		if st.ResendTimeout < time.Second {
			w.fail("tm/live/below-floor/"+e.Name, "%s: adaptive resend timeout %v is below the one-second floor", e.Name, st.ResendTimeout)
		}
		// A DATA packet put on the wire a second time is a retransmission:
		// the manager must have been told so, i.e. the timeout was boosted
		// in that very step, unless a boost within the last base interval
		// made this one a no-op (at most one step per base interval).
		e.out.mu.Lock()
		all := append([]WireRec{}, e.out.wire...)
		e.out.mu.Unlock()
		resent := false
		for i := tl.wireSeen; i < len(all); i++ {
			if d, ok := deserData(all[i].Data); !ok || d.IsPing {
				continue
			}
			for j := 0; j < i; j++ {
				if bytes.Equal(all[j].Data, all[i].Data) {
					resent = true
				}
			}
		}
		firstLook := tl.wireSeen == 0 && !tl.known
		tl.wireSeen = len(all)
		if resent && !firstLook && tl.known {
			boosted := st.ResendBoostCount > tl.boosts
			limited := !st.ResendLastBoost.IsZero() && time.Since(st.ResendLastBoost) < st.ResendOriginal
			if !boosted && !limited {
				w.fail("tm/live/retransmission-not-registered/"+e.Name,
					"%s retransmitted a DATA packet but its timeout manager shows no boost (boost count %d as before, last boost not within the base interval %v): the retransmission was recorded as a first transmission, so its round trip will be used as a sample",
					e.Name, st.ResendBoostCount, st.ResendOriginal)
			} else {
				w.reached["tm-live-retransmission-boosted:"+e.Name] = true
			}
		}
		if !tl.known {
			tl.known, tl.base, tl.boosts, tl.sinceOrder = true, st.ResendOriginal, st.ResendBoostCount, w.order
			continue
		}
		tl.boosts = st.ResendBoostCount
		if st.ResendOriginal == tl.base {
			continue
		}
		// the base changed: look for a sample that justifies it
		e.out.mu.Lock()
		wire := append([]WireRec{}, e.out.wire...)
		e.out.mu.Unlock()
		e.in.mu.Lock()
		dl := append([]WireRec{}, e.in.deliveredLog...)
		e.in.mu.Unlock()
		justified, acks := false, 0
		for _, r := range dl {
			if r.Order <= tl.sinceOrder {
				continue
			}
			m, err := safeDeserialize(r.Data)
			if err != nil {
				continue
			}
			ack, ok := m.(*gbn.PacketACK)
			if !ok {
				continue
			}
			acks++
			// the packet that owned this sequence number when the ACK
			// arrived, and how often it had been put on the wire
			var owner []byte
			for _, t := range wire {
				if t.Order >= r.Order {
					break
				}
				if d, ok := deserData(t.Data); ok && d.Seq == ack.Seq {
					owner = t.Data
				}
			}
			if owner == nil {
				continue
			}
			n := 0
			for _, t := range wire {
				if t.Order >= r.Order {
					break
				}
				if bytes.Equal(t.Data, owner) {
					n++
				}
			}
			if n == 1 {
				justified = true
			}
		}
		if !justified {
			w.fail("tm/live/base-recomputed-without-clean-sample/"+e.Name,
				"%s: the base of the adaptive resend timeout moved from %v to %v although none of the %d ACKs that reached it since the previous change was for a packet transmitted exactly once (a retransmitted packet's round trip was used as a sample)",
				e.Name, tl.base, st.ResendOriginal, acks)
		} else {
			w.reached["tm-live-base-updated:"+e.Name] = true
		}
		tl.base, tl.boosts, tl.sinceOrder = st.ResendOriginal, st.ResendBoostCount, w.order
	}
}

func deserData(b []byte) (*gbn.PacketData, bool) {
	m, err := safeDeserialize(b)
	if err != nil {
		return nil, false
	}
	d, ok := m.(*gbn.PacketData)
	return d, ok
}
