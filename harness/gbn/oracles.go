package gbnh

import (
	"bytes"
	"fmt"
	"strings"
	"time"

	"github.com/lightninglabs/lightning-node-connect/gbn/vrt"
)

func short(b []byte) string {
	if len(b) > 12 {
		return fmt.Sprintf("%q..(%d)", b[:12], len(b))
	}
	return fmt.Sprintf("%q", b)
}

// accepted returns the payloads whose Send returned nil, in call order.
func accepted(e *Endpoint) [][]byte {
	var out [][]byte
	for _, c := range e.calls("send") {
		if c.Returned && c.Err == "" {
			out = append(out, c.Data)
		}
	}
	return out
}

// received returns the successful Recv results in call order.
func received(e *Endpoint) [][]byte {
	var out [][]byte
	for _, c := range e.calls("recv") {
		if c.Returned && c.Err == "" {
			out = append(out, c.Data)
		}
	}
	return out
}

// offered returns every payload passed to Send (whatever the result), in
// call order.
func offered(e *Endpoint) [][]byte {
	var out [][]byte
	for _, c := range e.calls("send") {
		out = append(out, c.Data)
	}
	return out
}

// monPrefix is the C01 / C14 oracle: what Recv returned on one side is a
// prefix of what Send accepted on the other, byte for byte.
func monPrefix(w *World) {
	check := func(dir string, from, to *Endpoint) {
		acc := accepted(from)
		got := received(to)
		for i, g := range got {
			if i >= len(acc) {
				// A message can only be delivered after Send
				// handed it over; more results than accepted
				// sends means duplication or invention.
				w.fail("prefix/"+dir+"/extra",
					"%s: Recv #%d returned %s but only %d messages were accepted by Send (duplicate or invented message)",
					dir, i, short(g), len(acc))
				return
			}
			if !bytes.Equal(g, acc[i]) {
				kind := "altered"
				for j, a := range acc {
					if bytes.Equal(a, g) {
						if j < i {
							kind = "duplicate"
						} else {
							kind = "loss-or-reorder"
						}
					}
				}
				w.fail("prefix/"+dir+"/"+kind,
					"%s: Recv #%d returned %s, expected %s (%s); accepted=%d received=%d",
					dir, i, short(g), short(acc[i]), kind, len(acc), len(got))
				return
			}
		}
	}
	check("c2s", w.C, w.S)
	check("s2c", w.S, w.C)
}

// finalAllDelivered: at the end of a run in which nothing was closed, every
// accepted message has been received (used as a non-vacuity / sanity oracle
// by scenarios whose goal is "all scripts finished").
func classOf(w *World, x *vrt.Exec) string {
	var b strings.Builder
	for _, e := range []*Endpoint{w.C, w.S} {
		ctor := "ok"
		if !e.CtorDone {
			ctor = "pending"
		} else if e.CtorErr != nil {
			ctor = "err"
		}
		nerrS, nerrR := 0, 0
		for _, c := range e.Calls {
			if c.Returned && c.Err != "" {
				if c.Kind == "send" {
					nerrS++
				}
				if c.Kind == "recv" {
					nerrR++
				}
			}
		}
		fmt.Fprintf(&b, "%s[ctor=%s acc=%d rcv=%d serr=%d rerr=%d] ", e.Name[:1], ctor,
			len(accepted(e)), len(received(e)), nerrS, nerrR)
	}
	end := x.End
	if i := strings.IndexByte(end, ':'); i > 0 {
		end = end[:i]
	}
	fmt.Fprintf(&b, "end=%s", end)
	return b.String()
}

// crossCutting turns panics and leaks into findings when the scenario's check
// owns them, and into foreign-event counts otherwise.
func crossCutting(w *World, x *vrt.Exec) {
	for _, p := range x.Panics {
		site := panicSite(p.Stack)
		if w.sc.Owns["panic"] {
			w.fail("panic/"+site, "panic in thread %s: %s at %s", p.Thread, p.Value, site)
		} else {
			w.foreign = append(w.foreign, "panic:"+site)
		}
	}
	if len(x.Leftover) > 0 && x.End != "steps" {
		for _, l := range x.Leftover {
			if strings.HasPrefix(l, "drain-close-") || strings.Contains(l, "-app") || strings.Contains(l, "-main") {
				// harness threads blocked in an API call are
				// reported through the call oracles
				continue
			}
			if w.sc.Owns["leak"] {
				w.fail("leak/"+l, "goroutine of the connection still alive %v after both ends were closed: %s (all: %v)",
					w.sc.Cfg.DrainTime, l, x.Leftover)
			} else {
				w.foreign = append(w.foreign, "leak:"+l)
			}
		}
	}
}

// panicSite extracts the first frame of the code under test from a stack.
func panicSite(stack string) string {
	lines := strings.Split(stack, "\n")
	for i, l := range lines {
		if strings.Contains(l, "lightning-node-connect/gbn.") && !strings.Contains(l, "/vrt") {
			fn := strings.TrimSpace(l)
			if j := strings.IndexByte(fn, '('); j > 0 {
				fn = fn[:j]
			}
			if k := strings.LastIndex(fn, "/gbn."); k >= 0 {
				fn = fn[k+1:]
			}
			_ = i
			return fn
		}
	}
	return "unknown"
}

// finalClose is the C12 oracle, evaluated after the drain (both ends closed
// by the harness, DrainTime of virtual time passed).
func finalClose(w *World, x *vrt.Exec) {
	const bound = 10 * time.Second // FIN timeout (1s) + 3 boosted resend timeouts + slack
	drainAt := x.Elapsed - w.sc.Cfg.DrainTime
	for _, e := range []*Endpoint{w.C, w.S} {
		var firstCloseReturn time.Duration = -1
		var firstCloseSeq int64
		for _, c := range e.calls("close") {
			if !c.Returned {
				w.fail("close/never-returns/"+e.Name,
					"%s: Close called at %v by %s had not returned %v later (end of run)",
					e.Name, c.Start, c.Thread, x.Elapsed-c.Start)
				continue
			}
			if c.End-c.Start > bound {
				w.fail("close/slow/"+e.Name, "%s: Close called at %v took %v (bound %v)",
					e.Name, c.Start, c.End-c.Start, bound)
			}
			if c.Err != "" {
				w.reached["close-returned-error"] = true
			}
			if firstCloseReturn < 0 || c.EndSeq < firstCloseSeq {
				firstCloseReturn = c.End
				firstCloseSeq = c.EndSeq
			}
		}
		if firstCloseReturn < 0 {
			continue
		}
		w.reached["closed:"+e.Name] = true
		// Calls issued after Close returned must fail at once; calls
		// that were blocked must have returned by now.
		for _, c := range e.Calls {
			if c.Kind != "send" && c.Kind != "recv" {
				continue
			}
			if !c.Returned {
				w.fail("close/call-hangs/"+e.Name+"/"+c.Kind,
					"%s: %s started at %v is still blocked although Close returned at %v",
					e.Name, c.Kind, c.Start, firstCloseReturn)
				continue
			}
			if c.StartSeq > firstCloseSeq && c.Err == "" {
				w.fail("close/call-after-close-succeeds/"+e.Name+"/"+c.Kind,
					"%s: %s started at %v after Close had returned (%v) succeeded",
					e.Name, c.Kind, c.Start, firstCloseReturn)
			}
			if c.Start < firstCloseReturn && c.End > firstCloseReturn+bound {
				w.fail("close/blocked-call-slow/"+e.Name+"/"+c.Kind,
					"%s: %s blocked since %v returned only at %v, Close returned at %v",
					e.Name, c.Kind, c.Start, c.End, firstCloseReturn)
			}
		}
	}
	// Peer notification: when one side was closed by its application
	// through Close and the transport worked, the other side's
	// calls must have failed before the harness itself closed it.
	if w.closersUsed > 0 && w.faultsUsed == 0 && !w.blackholed {
		for _, pair := range [][2]*Endpoint{{w.C, w.S}, {w.S, w.C}} {
			x0, y := pair[0], pair[1]
			closedByApp := false
			for _, c := range x0.calls("close") {
				if strings.HasPrefix(c.Thread, "closer") && c.Returned && c.End <= drainAt {
					closedByApp = true
				}
			}
			if !closedByApp || y.Conn == nil {
				continue
			}
			w.reached["peer-notified-checked"] = true
			for _, c := range y.Calls {
				if (c.Kind == "send" || c.Kind == "recv") && (!c.Returned || c.End > drainAt) {
					w.fail("close/peer-not-notified/"+y.Name+"/"+c.Kind,
						"%s was closed by its application (transport healthy) but %s's %s (started %v) was still blocked %v later when the harness shut down",
						x0.Name, y.Name, c.Kind, c.Start, drainAt-c.Start)
				}
			}
		}
	}
}
