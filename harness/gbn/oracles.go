package gbnh

import (
	"bytes"
	"fmt"
	"strings"
	"time"

	"github.com/lightninglabs/lightning-node-connect/gbn"
	"github.com/lightninglabs/lightning-node-connect/gbn/vrt"
)

func short(b []byte) string {
	if len(b) > 12 {
		return fmt.Sprintf("%q..(%d)", b[:12], len(b))
	}
	return fmt.Sprintf("%q", b)
}

// accepted returns the payloads whose Send returned nil, in call order.
func accepted(e *Endpoint) [][]byte {
	var out [][]byte
	for _, c := range e.calls("send") {
		if c.Returned && c.Err == "" {
			out = append(out, c.Data)
		}
	}
	return out
}

// received returns the successful Recv results in call order.
func received(e *Endpoint) [][]byte {
	var out [][]byte
	for _, c := range e.calls("recv") {
		if c.Returned && c.Err == "" {
			out = append(out, c.Data)
		}
	}
	return out
}

// monDeliveryBound (C06, scenarios whose receivers read eagerly): a message
// accepted by Send is returned by the peer's Recv within `bound` of its
// acceptance or of the last transport fault, whichever is later - whatever
// else is going on on the connection (the peer streaming data of its own,
// keepalive traffic).
func monDeliveryBound(bound time.Duration) func(w *World) {
	return func(w *World) {
		if w.C.Conn == nil || w.S.Conn == nil || w.C.closedAt >= 0 || w.S.closedAt >= 0 {
			return
		}
		check := func(dir string, from, to *Endpoint) {
			got := len(received(to))
			k := 0
			for _, c := range from.calls("send") {
				if !c.Returned || c.Err != "" {
					continue
				}
				k++
				if k <= got {
					continue
				}
				since := c.End
				if w.lastFaultAt > since {
					since = w.lastFaultAt
				}
				if w.s.Now() > since+bound {
					w.fail("progress/delivery-late/"+dir,
						"%s: message #%d accepted by Send at %v has not been returned by the peer's Recv %v later (last transport fault at %v, bound %v, both ends open, receiver waiting)",
						dir, k-1, c.End, w.s.Now()-c.End, w.lastFaultAt, bound)
				}
				return
			}
		}
		check("c2s", w.C, w.S)
		check("s2c", w.S, w.C)
	}
}

// offered returns every payload passed to Send (whatever the result), in
// call order.
func offered(e *Endpoint) [][]byte {
	var out [][]byte
	for _, c := range e.calls("send") {
		out = append(out, c.Data)
	}
	return out
}

// monPrefix is the C01 / C14 oracle: what Recv returned on one side is a
// prefix of what Send accepted on the other, byte for byte.
func monPrefix(w *World) {
	check := func(dir string, from, to *Endpoint) {
		acc := accepted(from)
		got := received(to)
		for i, g := range got {
			if i >= len(acc) {
				// A message can only be delivered after Send
				// handed it over; more results than accepted
				// sends means duplication or invention.
				w.fail("prefix/"+dir+"/extra",
					"%s: Recv #%d returned %s but only %d messages were accepted by Send (duplicate or invented message)",
					dir, i, short(g), len(acc))
				return
			}
			if !bytes.Equal(g, acc[i]) {
				kind := "altered"
				// Narrower classes for the two chunking/timeout
				// symptoms, so that a known finding about one of
				// them does not hide any other corruption.
				sendTimedOut := false
				for _, c := range from.Calls {
					if c.Kind == "send-timeout" {
						sendTimedOut = true
					}
				}
				if sendTimedOut && len(g) > len(acc[i]) && bytes.HasSuffix(g, acc[i]) &&
					concatOfPrefixes(g[:len(g)-len(acc[i])], acc[i]) {
					// the chunks queued by one or more timed-out
					// Send calls, followed by the retried message
					kind = "merged-after-send-timeout"
				}
				for j, a := range acc {
					if bytes.Equal(a, g) {
						if j < i {
							kind = "duplicate"
						} else {
							kind = "loss-or-reorder"
						}
					}
				}
				w.fail("prefix/"+dir+"/"+kind,
					"%s: Recv #%d returned %s, expected %s (%s); accepted=%d received=%d",
					dir, i, short(g), short(acc[i]), kind, len(acc), len(got))
				return
			}
		}
	}
	check("c2s", w.C, w.S)
	check("s2c", w.S, w.C)
}

// finalAllDelivered: at the end of a run in which nothing was closed, every
// accepted message has been received (used as a non-vacuity / sanity oracle
// by scenarios whose goal is "all scripts finished").
func classOf(w *World, x *vrt.Exec) string {
	var b strings.Builder
	for _, e := range []*Endpoint{w.C, w.S} {
		ctor := "ok"
		if !e.CtorDone {
			ctor = "pending"
		} else if e.CtorErr != nil {
			ctor = "err"
		}
		nerrS, nerrR := 0, 0
		for _, c := range e.Calls {
			if c.Returned && c.Err != "" {
				if c.Kind == "send" {
					nerrS++
				}
				if c.Kind == "recv" {
					nerrR++
				}
			}
		}
		fmt.Fprintf(&b, "%s[ctor=%s acc=%d rcv=%d serr=%d rerr=%d] ", e.Name[:1], ctor,
			len(accepted(e)), len(received(e)), nerrS, nerrR)
	}
	end := x.End
	if i := strings.IndexByte(end, ':'); i > 0 {
		end = end[:i]
	}
	fmt.Fprintf(&b, "end=%s", end)
	return b.String()
}

// crossCutting turns panics and leaks into findings when the scenario's check
// owns them, and into foreign-event counts otherwise.
func crossCutting(w *World, x *vrt.Exec) {
	for _, p := range x.Panics {
		site := panicSite(p.Stack)
		if w.sc.Owns["panic"] {
			w.fail("panic/"+site, "panic in thread %s: %s at %s", p.Thread, p.Value, site)
		} else {
			w.foreign = append(w.foreign, "panic:"+site)
		}
	}
	timerLeaks(w)
	if len(x.Leftover) > 0 && x.End != "steps" {
		for _, l := range x.Leftover {
			if strings.HasPrefix(l, "drain-close-") || strings.Contains(l, "-app") || strings.Contains(l, "-main") {
				// harness threads blocked in an API call are
				// reported through the call oracles
				continue
			}
			if w.sc.Owns["leak"] {
				w.fail("leak/"+l, "goroutine of the connection still alive %v after both ends were closed: %s (all: %v)",
					w.sc.Cfg.DrainTime, l, x.Leftover)
			} else {
				w.foreign = append(w.foreign, "leak:"+l)
			}
		}
	}
}

// (timers: see World.AfterDrain)
func timerLeaks(w *World) {
	for _, l := range w.timerLeaks {
		w.fail("leak/timer/"+l, "a timer of the connection still fires more than %v after both ends were closed: %s",
			w.sc.Cfg.DrainTime, l)
	}
}

// panicSite extracts the first frame of the code under test from a stack.
func panicSite(stack string) string {
	lines := strings.Split(stack, "\n")
	for i, l := range lines {
		if strings.Contains(l, "lightning-node-connect/gbn.") && !strings.Contains(l, "/vrt") {
			fn := strings.TrimSpace(l)
			if j := strings.LastIndexByte(fn, '('); j > 0 {
				fn = fn[:j]
			}
			if k := strings.LastIndex(fn, "/gbn."); k >= 0 {
				fn = fn[k+1:]
			}
			_ = i
			return fn
		}
	}
	return "unknown"
}

// finalClose is the C12 oracle, evaluated after the drain (both ends closed
// by the harness, DrainTime of virtual time passed).
func finalClose(w *World, x *vrt.Exec) {
	// Close signals every wait of the connection (quit, the queue's quit, the
	// cancelled context), so apart from the FIN send (at most the 1 s FIN
	// timeout; the harness transport never blocks) it has nothing to wait
	// for: it must not sit out a resend interval or a sync wait.
	const bound = 1500 * time.Millisecond
	drainAt := x.Elapsed - w.sc.Cfg.DrainTime
	for _, e := range []*Endpoint{w.C, w.S} {
		var firstCloseReturn time.Duration = -1
		var firstCloseSeq int64
		for _, c := range e.calls("close") {
			if !c.Returned {
				w.fail("close/never-returns/"+e.Name,
					"%s: Close called at %v by %s had not returned %v later (end of run)",
					e.Name, c.Start, c.Thread, x.Elapsed-c.Start)
				continue
			}
			if c.Busy != "" {
				w.fail("close/returned-mid-teardown/"+e.Name,
					"%s: Close called at %v by %s returned at %v with %s",
					e.Name, c.Start, c.Thread, c.End, c.Busy)
			}
			if c.End-c.Start > bound {
				w.fail("close/slow/"+e.Name, "%s: Close called at %v took %v (bound %v)",
					e.Name, c.Start, c.End-c.Start, bound)
			}
			if c.Err != "" {
				w.reached["close-returned-error"] = true
			}
			if firstCloseReturn < 0 || c.EndSeq < firstCloseSeq {
				firstCloseReturn = c.End
				firstCloseSeq = c.EndSeq
			}
		}
		if firstCloseReturn < 0 {
			continue
		}
		if e.lateTransport != "" {
			w.fail("close/transport-used-after-close/"+e.Name,
				"%s: after a Close call had returned the connection called into its transport again (%s)", e.Name, e.lateTransport)
		}
		w.reached["closed:"+e.Name] = true
		// Calls issued after Close returned must fail at once; calls
		// that were blocked must have returned by now.
		for _, c := range e.Calls {
			if c.Kind != "send" && c.Kind != "recv" {
				continue
			}
			if !c.Returned {
				w.fail("close/call-hangs/"+e.Name+"/"+c.Kind,
					"%s: %s started at %v is still blocked although Close returned at %v",
					e.Name, c.Kind, c.Start, firstCloseReturn)
				continue
			}
			if c.StartSeq > firstCloseSeq && c.Err == "" {
				w.fail("close/call-after-close-succeeds/"+e.Name+"/"+c.Kind,
					"%s: %s started at %v after Close had returned (%v) succeeded",
					e.Name, c.Kind, c.Start, firstCloseReturn)
			}
			if c.Start < firstCloseReturn && c.End > firstCloseReturn+bound {
				w.fail("close/blocked-call-slow/"+e.Name+"/"+c.Kind,
					"%s: %s blocked since %v returned only at %v, Close returned at %v",
					e.Name, c.Kind, c.Start, c.End, firstCloseReturn)
			}
		}
	}
	// Peer notification: when one side was closed by its application
	// through Close and the transport worked, the other side's
	// calls must have failed before the harness itself closed it.
	if w.closersUsed > 0 && w.faultsUsed == 0 && !w.blackholed {
		for _, pair := range [][2]*Endpoint{{w.C, w.S}, {w.S, w.C}} {
			x0, y := pair[0], pair[1]
			closedByApp := false
			for _, c := range x0.calls("close") {
				if strings.HasPrefix(c.Thread, "closer") && c.Returned && c.End <= drainAt {
					closedByApp = true
				}
			}
			if !closedByApp || y.Conn == nil {
				continue
			}
			w.reached["peer-notified-checked"] = true
			for _, c := range y.Calls {
				if (c.Kind == "send" || c.Kind == "recv") && (!c.Returned || c.End > drainAt) {
					w.fail("close/peer-not-notified/"+y.Name+"/"+c.Kind,
						"%s was closed by its application (transport healthy) but %s's %s (started %v) was still blocked %v later when the harness shut down",
						x0.Name, y.Name, c.Kind, c.Start, drainAt-c.Start)
				}
			}
		}
	}
}

// finalAllDelivered: when the run ended without any endpoint closing, every
// message accepted by Send has been returned by the peer's Recv. (Scenarios
// that use it have a goal of "all scripts finished" and a horizon far beyond
// any recovery time, so a miss is a lost message or a stall.)
func finalAllDelivered(w *World, x *vrt.Exec) {
	if w.C.Conn == nil || w.S.Conn == nil || len(w.findings) > 0 {
		// (a run that was cut short by a monitor proves nothing about
		// progress)
		return
	}
	check := func(dir string, from, to *Endpoint) {
		acc, got := accepted(from), received(to)
		if len(got) < len(acc) {
			closed := closedBeforeDrain(w, x)
			if closed != "" {
				w.reached["closed-before-delivery"] = true
				if !w.sc.NoCloseAllowed {
					return
				}
				w.fail("progress/closed/"+dir, "%s: connection closed (%s) with keepalive off and %d of %d accepted messages undelivered", dir, closed, len(acc)-len(got), len(acc))
				return
			}
			w.fail(fmt.Sprintf("progress/undelivered/%s/len=%d", dir, len(acc[len(got)])),
				"%s: %d messages accepted by Send, only %d returned by Recv after %v of virtual time with both ends open; first missing: %s (run ended: %s)",
				dir, len(acc), len(got), x.Elapsed-w.sc.Cfg.DrainTime, short(acc[len(got)]), x.End)
		}
	}
	check("c2s", w.C, w.S)
	check("s2c", w.S, w.C)
	if len(w.findings) > 0 || closedBeforeDrain(w, x) != "" {
		return
	}
	// A Send that has been blocked for a minute on an open connection
	// whose transport has been reliable all that time, while the peer's
	// application is waiting in Recv (so it is not back-pressure): Send
	// blocks only while the window is full, and a full window drains
	// within a few resend timeouts. (Such a message was never "accepted",
	// so the check above does not see it.)
	drainAt := x.Elapsed - w.sc.Cfg.DrainTime
	stalled := func(dir string, from, to *Endpoint) {
		peerWaiting := false
		for _, c := range to.calls("recv") {
			if !c.Returned || c.End >= drainAt {
				peerWaiting = true
			}
		}
		if !peerWaiting {
			return
		}
		for _, c := range from.calls("send") {
			if c.Returned && c.End < drainAt {
				continue
			}
			since := c.Start
			if w.lastFaultAt > since {
				since = w.lastFaultAt
			}
			if drainAt-since >= 60*time.Second {
				snap := w.endSnap[0] // (taken inside the bubble, before the drain)
				if from == w.S {
					snap = w.endSnap[1]
				}
				w.fail("progress/send-blocked/"+dir,
					"%s: Send called at %v was still blocked %v later (transport reliable since %v, both ends open, the peer waiting in Recv); sender's queue size %d of window %d",
					dir, c.Start, drainAt-c.Start, w.lastFaultAt, snap.Size, snap.N)
				return
			}
		}
	}
	stalled("c2s", w.C, w.S)
	stalled("s2c", w.S, w.C)
}

// closedBeforeDrain reports which endpoint had shut down before the harness
// drained the run ("" if none).
func closedBeforeDrain(w *World, x *vrt.Exec) string {
	out := ""
	for _, e := range []*Endpoint{w.C, w.S} {
		if e.closedAt >= 0 {
			out += e.Name + " "
		}
	}
	return strings.TrimSpace(out)
}

// monClosed records the first quiescent state at which an endpoint's quit
// channel is closed.
func monClosed(w *World) {
	for _, e := range []*Endpoint{w.C, w.S} {
		if e.Conn != nil && e.closedAt < 0 && e.Conn.VerifSnapshot().QuitClosed {
			e.closedAt = w.s.Now()
		}
	}
}

// monWindow is the C09 oracle: white-box window invariants on both
// endpoints and the black-box outstanding-packets bound from the wire log.
func monWindow(w *World) {
	for _, e := range []*Endpoint{w.C, w.S} {
		if e.Conn == nil {
			continue
		}
		s := e.Conn.VerifSnapshot()
		if !s.Started {
			continue
		}
		if s.S != s.N+1 || s.QueueS != s.S || s.S <= s.N {
			w.fail("window/seqspace/"+e.Name, "%s: n=%d s=%d queue.s=%d: sequence space must be n+1 > n", e.Name, s.N, s.S, s.QueueS)
		}
		if s.Base >= s.QueueS || s.Top >= s.QueueS {
			w.fail("window/range/"+e.Name, "%s: base=%d top=%d outside sequence space %d", e.Name, s.Base, s.Top, s.QueueS)
		}
		if s.Size > s.N {
			w.fail("window/size/"+e.Name, "%s: queue size %d exceeds window n=%d (base=%d top=%d)", e.Name, s.Size, s.N, s.Base, s.Top)
		}
		if s.RecvSeq >= s.S {
			w.fail("window/recvseq/"+e.Name, "%s: recvSeq=%d outside sequence space %d", e.Name, s.RecvSeq, s.S)
		}
	}
	// Black box: first transmissions minus acknowledgements delivered.
	blackBox := func(dir string, data, acks *Link, snd *Endpoint) {
		if snd.Conn == nil {
			return
		}
		snap := snd.Conn.VerifSnapshot()
		if !snap.Started {
			return
		}
		n, s := int(snap.N), int(snap.S)
		if s == 0 {
			return
		}
		// Merge the two wire logs by packet id (global send order) but
		// acknowledgements only count once delivered; we use the
		// order of delivery recorded by the link.
		type evt struct {
			at   int // ordering key
			kind byte
			seq  int
		}
		var evs []evt
		data.mu.Lock()
		for _, r := range data.wire {
			m, err := safeDeserialize(r.Data)
			if err != nil {
				continue
			}
			if d, ok := m.(*gbn.PacketData); ok {
				evs = append(evs, evt{r.Order, 'D', int(d.Seq)})
			}
		}
		data.mu.Unlock()
		acks.mu.Lock()
		for _, r := range acks.deliveredLog {
			m, err := safeDeserialize(r.Data)
			if err != nil {
				continue
			}
			switch a := m.(type) {
			case *gbn.PacketACK:
				evs = append(evs, evt{r.Order, 'A', int(a.Seq)})
			case *gbn.PacketNACK:
				evs = append(evs, evt{r.Order, 'N', int(a.Seq)})
			}
		}
		acks.mu.Unlock()
		sortEvts := func() {
			for i := 1; i < len(evs); i++ {
				for j := i; j > 0 && evs[j].at < evs[j-1].at; j-- {
					evs[j], evs[j-1] = evs[j-1], evs[j]
				}
			}
		}
		sortEvts()
		mbase, mtop := 0, 0 // unbounded model window [mbase, mtop)
		// An acknowledgement counts from its delivery on, but the endpoint
		// may process it later than that (its receive goroutine can be
		// scheduled after the next transmission): one that had no effect
		// when it was delivered is kept and may take effect later.
		var late []evt
		apply := func(e evt) bool {
			switch e.kind {
			case 'A':
				for i := mbase; i < mtop; i++ {
					if i%s == e.seq {
						mbase = i + 1
						return true
					}
				}
			case 'N':
				if e.seq == mtop%s {
					if mbase != mtop {
						mbase = mtop
						return true
					}
					return false
				}
				for i := mbase + 1; i < mtop; i++ {
					if i%s == e.seq {
						mbase = i
						return true
					}
				}
			}
			return false
		}
		for _, e := range evs {
			switch e.kind {
			case 'D':
				if e.seq == mtop%s {
					// (late acknowledgements are tried against the
					// window as it was before this transmission: their
					// meaning depends on where the top is)
					for mtop+1-mbase > n && len(late) > 0 {
						used := false
						for k, le := range late {
							if apply(le) {
								late = append(late[:k:k], late[k+1:]...)
								used = true
								break
							}
						}
						if !used {
							break
						}
					}
					mtop++
					if mtop-mbase > n {
						w.fail("window/outstanding/"+dir,
							"%s: %d data packets transmitted for the first time with only %d acknowledged by delivered ACK/NACKs: %d outstanding > N=%d",
							dir, mtop, mbase, mtop-mbase, n)
						return
					}
				}
			case 'A', 'N':
				if !apply(e) {
					late = append(late, e)
					if len(late) > 8 {
						late = late[1:]
					}
				}
			}
		}
	}
	blackBox("c2s", w.c2s, w.s2c, w.C)
	blackBox("s2c", w.s2c, w.c2s, w.S)
}

// proposedN is the window the (real or raw) client proposed.
func proposedN(w *World) uint8 {
	if w.sc.RawClient != nil {
		return w.sc.RawN
	}
	return w.sc.N
}

// monHandshake is oracle (a) of C10: a server in the data phase uses exactly
// the window the client proposed, and that window is representable.
func monHandshake(w *World) {
	if w.S.Conn == nil {
		return
	}
	s := w.S.Conn.VerifSnapshot()
	if !s.Started {
		return
	}
	w.reached["server-data-phase"] = true
	want := proposedN(w)
	if s.N < 1 || s.N > 254 {
		w.fail(fmt.Sprintf("handshake/unrepresentable-window/n=%d", s.N),
			"server entered the data phase with window n=%d (s=%d): the protocol needs 1 <= n <= 254", s.N, s.S)
		return
	}
	if w.sc.RawClient != nil {
		if s.N != want {
			w.fail("handshake/window-mismatch", "server is in the data phase with n=%d, the client proposed %d", s.N, want)
		}
		return
	}
	// Both ends in the data phase must use the window the client proposed.
	// (A server that completed a handshake with the stale SYN/SYNACK of an
	// earlier connection that used another window is not yet a violation:
	// the protocol has no connection ids, the current client then fails
	// visibly on the mismatching echo, and its SYN or FIN tears the server
	// down.)
	if w.C.Conn != nil {
		c := w.C.Conn.VerifSnapshot()
		if c.Started && !c.QuitClosed && !s.QuitClosed && (c.N != want || s.N != want) {
			w.fail("handshake/window-mismatch", "both ends are in the data phase, the client with n=%d and the server with n=%d; the client proposed %d", c.N, s.N, want)
		}
	}
}

func sideState(e *Endpoint) string {
	switch {
	case !e.CtorDone:
		return "handshaking"
	case e.CtorErr != nil:
		return "failed"
	case e.closedAt >= 0:
		return "closed"
	}
	return "open"
}

// finalHandshake is oracles (b) and (c) of C10, judged on the state in which
// the run proper ended (before the harness shut both ends down).
func finalHandshake(w *World, x *vrt.Exec) {
	if len(w.findings) > 0 {
		return
	}
	cs, ss := w.endState[0], w.endState[1]
	w.reached["end:"+cs+"/"+ss] = true
	// Stale packets other than SYNs are ignored by both handshakes, so a
	// fault-free canonical run must still connect with them in the way.
	staleSYN := false
	for _, l := range [][][]byte{w.sc.StaleC2S, w.sc.StaleS2C} {
		for _, b := range l {
			if len(b) > 0 && b[0] == gbn.SYN {
				staleSYN = true
			}
		}
	}
	clean := w.faultsUsed == 0 && !staleSYN
	settled := w.endAt >= w.lastFaultAt+30*time.Second
	if cs == "open" && ss == "open" {
		finalAllDelivered(w, x)
		return
	}
	if clean && w.canonical {
		w.fail("handshake/clean-run-failed/"+cs+"/"+ss,
			"no fault, no stale SYN, canonical schedule, yet the run ended with client %s and server %s", cs, ss)
		return
	}
	if !settled {
		return
	}
	// One side healthy in the data phase while the other is still in its
	// handshake and has reported nothing: a silent half-open connection.
	// (A side whose constructor returned an error or whose connection
	// closed has failed visibly, which the property allows.)
	if (cs == "open" && ss == "handshaking") || (ss == "open" && cs == "handshaking") {
		cause := "no-stale-syn"
		for _, b := range w.sc.StaleS2C {
			if len(b) > 0 && b[0] == gbn.SYN {
				// a stale SYN towards the client is taken for the
				// server's echo (the echo carries no nonce)
				cause = "stale-syn-to-client"
			}
		}
		w.fail("handshake/half-open/"+cs+"/"+ss+"/"+cause,
			"%v after the last fault the client is %s and the server is %s: one side is in the data phase, the other is still waiting in its handshake, and no call on either side has reported an error",
			w.endAt-w.lastFaultAt, cs, ss)
		return
	}
	// Both sides still in their handshake although the transport has been
	// reliable for 30 s: the attempt neither succeeded nor failed with an
	// error on either side ("once the transport behaves a handshake
	// succeeds"). The client is the side that has to keep retrying.
	if cs == "handshaking" && ss == "handshaking" {
		w.fail("handshake/both-stuck",
			"%v after the last fault, with a reliable transport, client and server are both still waiting in their handshakes and no call has reported an error (client SYNs on the wire in the last 20 s: %d)",
			w.endAt-w.lastFaultAt, recentSYNs(w, 20*time.Second))
		return
	}
	w.reached["visible-failure"] = true
}

// recentSYNs counts the SYN packets the client put on the wire in the last d
// of the run.
func recentSYNs(w *World, d time.Duration) int {
	n := 0
	w.c2s.mu.Lock()
	defer w.c2s.mu.Unlock()
	for _, r := range w.c2s.wire {
		if len(r.Data) > 0 && r.Data[0] == gbn.SYN && r.At >= w.endAt-d {
			n++
		}
	}
	return n
}

// monQuiet is oracle (c) of C06: once everything has been delivered and
// acknowledged nothing but keepalive pings is transmitted any more.
func monQuiet(w *World) {
	if w.C.Conn == nil || w.S.Conn == nil {
		return
	}
	quietAt, isQuiet := w.extra["quietAt"].(time.Duration)
	if !isQuiet {
		if !w.appsFinished() {
			return
		}
		if len(received(w.S)) != len(accepted(w.C)) || len(received(w.C)) != len(accepted(w.S)) {
			return
		}
		if w.C.Conn.VerifSnapshot().Size != 0 || w.S.Conn.VerifSnapshot().Size != 0 {
			return
		}
		if w.c2s.head() != nil || w.s2c.head() != nil {
			return
		}
		w.extra["quietAt"] = w.s.Now()
		w.extra["quietOrder"] = w.order
		w.reached["quiet"] = true
		return
	}
	qo, _ := w.extra["quietOrder"].(int)
	for _, l := range []*Link{w.c2s, w.s2c} {
		l.mu.Lock()
		for _, r := range l.wire {
			if r.Order > qo && strings.HasPrefix(pktName(r.Data), "DATA") {
				l.mu.Unlock()
				w.fail("progress/retransmit-after-all-acked/"+l.name,
					"%s: %s transmitted at %v although every message had been delivered and both send queues were empty since %v",
					l.name, pktName(r.Data), r.At, quietAt)
				return
			}
		}
		l.mu.Unlock()
	}
}

// finalNoHang: when an endpoint shut down by itself (allowed with keepalive
// on), no application call on either side may be left hanging.
func finalNoHang(w *World, x *vrt.Exec) {
	if len(w.findings) > 0 || closedBeforeDrain(w, x) == "" {
		return
	}
	drainAt := x.Elapsed - w.sc.Cfg.DrainTime
	if w.sc.PingC == 0 || w.sc.PingS == 0 {
		return
	}
	for _, e := range []*Endpoint{w.C, w.S} {
		for _, c := range e.Calls {
			if (c.Kind == "send" || c.Kind == "recv") && (!c.Returned || c.End > drainAt) {
				w.fail("progress/hang-after-close/"+e.Name+"/"+c.Kind,
					"a connection end shut down (%s) but %s's %s started at %v was still blocked at %v (keepalive on both sides)",
					closedBeforeDrain(w, x), e.Name, c.Kind, c.Start, drainAt)
			}
		}
	}
}

// finalKeepaliveDead is the dead-peer half of C13.
func finalKeepaliveDead(w *World, x *vrt.Exec) {
	if !w.blackholed {
		return
	}
	w.reached["blackholed"] = true
	const slack = 12 * time.Second // 6 boosted resend timeouts and then some
	for i, side := range []struct {
		e          *Endpoint
		ping, pong time.Duration
	}{{w.C, w.sc.PingC, w.sc.PongC}, {w.S, w.sc.PingS, w.sc.PongS}} {
		e := side.e
		if side.ping == 0 || e.Conn == nil {
			continue
		}
		limit := w.blackholeAt + side.ping + side.pong + slack
		snap := w.endSnap[i] // (taken inside the bubble, before the drain)
		class := "window-not-full"
		if snap.Size >= snap.N {
			class = "window-full"
		}
		if e.closedAt < 0 {
			w.fail("keepalive/dead-peer-undetected/"+e.Name+"/"+class,
				"transport silent since %v; %s (ping %v, pong %v, %s, %d packets queued) had still not closed the connection %v later",
				w.blackholeAt, e.Name, side.ping, side.pong, class, snap.Size, w.endAt-w.blackholeAt)
			continue
		}
		if e.closedAt > limit {
			w.fail("keepalive/dead-peer-late/"+e.Name+"/"+class,
				"transport silent since %v; %s closed only at %v (limit %v = ping %v + pong %v + %v)",
				w.blackholeAt, e.Name, e.closedAt, limit, side.ping, side.pong, slack)
			continue
		}
		w.reached["detected:"+e.Name+":"+class] = true
		// An endpoint that gave up while its own sending direction still
		// worked has told the peer (Close sends a FIN): the peer's end
		// closes as well instead of hanging.
		peer := w.S
		if e == w.S {
			peer = w.C
		}
		e.out.mu.Lock()
		outDead := e.out.blackhole
		e.out.mu.Unlock()
		if !outDead && (peer.closedAt < 0 || peer.closedAt > e.closedAt+2*time.Second) {
			w.fail("keepalive/peer-not-told/"+e.Name,
				"%s gave up at %v (nothing heard from the peer since %v) while its own sending direction still worked, but the peer was not told: its end closed at %v (-1ns = never)",
				e.Name, e.closedAt, w.blackholeAt, peer.closedAt)
			continue
		}
		if !outDead {
			w.reached["peer-told:"+e.Name] = true
		}
		// its calls fail too
		for _, c := range e.Calls {
			if (c.Kind == "send" || c.Kind == "recv") && !c.Returned {
				w.fail("keepalive/call-hangs-after-detection/"+e.Name+"/"+c.Kind,
					"%s detected the dead peer at %v but its %s started at %v never returned", e.Name, e.closedAt, c.Kind, c.Start)
			}
		}
	}
}

// finalDeadlock: after the drain every thread must have finished; one that
// is still waiting for a lock, a Once or a WaitGroup is a deadlock.
func finalDeadlock(w *World, x *vrt.Exec) {
	for _, l := range x.Leftover {
		site := l[strings.IndexByte(l, '@')+1:]
		if strings.HasSuffix(site, ":Lock") || strings.HasSuffix(site, ":RLock") ||
			strings.Contains(site, "Once.Do") || strings.Contains(site, "WaitGroup.Wait") {
			w.fail("deadlock/"+l, "thread %s is still blocked at %s after the run and the drain: lock-order or wait deadlock (all left over: %v)",
				l[:strings.IndexByte(l, '@')], site, x.Leftover)
		}
	}
}

// concatOfPrefixes reports whether b is a concatenation of non-empty proper
// prefixes of msg.
func concatOfPrefixes(b, msg []byte) bool {
	ok := make([]bool, len(b)+1)
	ok[0] = true
	for i := 0; i < len(b); i++ {
		if !ok[i] {
			continue
		}
		for l := 1; l < len(msg) && i+l <= len(b); l++ {
			if bytes.Equal(b[i:i+l], msg[:l]) {
				ok[i+l] = true
			} else {
				break
			}
		}
	}
	return len(b) > 0 && ok[len(b)]
}

// finalQuiet is oracle (c) of C06 in its end-of-run form: the applications
// have finished (everything was delivered) and the connection has been left
// alone for IdleAfter; whatever recovery was still going on must be over: no
// DATA packet other than keepalive pings in the last third of that period.
func finalQuiet(w *World, x *vrt.Exec) {
	if len(w.findings) > 0 || !w.goalReached || w.sc.IdleAfter < 6*time.Second {
		return
	}
	if closedBeforeDrain(w, x) != "" {
		return
	}
	// "left alone" counts from the last transport fault as well: a fault
	// that hits a retransmission during the idle period starts another
	// recovery (with a resend period of several seconds in some
	// configurations), which is not what this oracle is about
	since := w.goalAt
	if w.lastFaultAt > since {
		since = w.lastFaultAt
	}
	from := since + w.sc.IdleAfter*2/3
	for _, l := range []*Link{w.c2s, w.s2c} {
		for _, r := range l.wire {
			if r.At >= from && r.At <= w.endAt && strings.HasPrefix(pktName(r.Data), "DATA") {
				w.fail("progress/still-retransmitting/"+l.name,
					"%s: %s transmitted at %v; every message had been delivered, the applications were idle since %v and the transport reliable since %v, so retransmission should have stopped long before",
					l.name, pktName(r.Data), r.At, w.goalAt, w.lastFaultAt)
				return
			}
		}
	}
	w.reached["quiet-at-end"] = true
}
