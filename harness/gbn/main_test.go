package gbnh

import (
	"encoding/json"
	"fmt"
	"os"
	"os/exec"
	"runtime"
	"sort"
	"strconv"
	"strings"
	"testing"
	"time"

	"github.com/lightninglabs/lightning-node-connect/gbn/vrt"

	"verif/engine/explore"
	"verif/lib/ev"
)

var (
	exitCode = 2
	theT     *testing.T
)

func TestMain(m *testing.M) {
	c := m.Run()
	if c != 0 && exitCode == 0 {
		exitCode = 2
	}
	os.Exit(exitCode)
}

// runOne executes one schedule of one scenario on the real (instrumented)
// code and evaluates the scenario's oracles.
func runOne(scenario string, prefix []int, trace bool) *explore.Outcome {
	sc := Build(scenario)
	cfg := sc.Cfg
	cfg.Trace = trace
	var w *World
	x := vrt.Run(theT, cfg, prefix, func(s *vrt.Sched) vrt.Env {
		w = newWorld(s, sc)
		w.canonical = true
		for _, c := range prefix {
			if c != 0 {
				w.canonical = false
			}
		}
		return w
	})
	// different scenarios must not share trace hashes
	for i := 0; i < len(scenario); i++ {
		x.Hash = (x.Hash ^ uint64(scenario[i])) * 1099511628211
	}
	for _, f := range sc.Final {
		f(w, x)
	}
	crossCutting(w, x)
	if x.End == "steps" {
		w.fail("livelock/step-cap", "execution exceeded the step cap of %d scheduler steps", cfg.MaxSteps)
	}
	o := &explore.Outcome{Exec: x, Class: classOf(w, x), States: w.states,
		Foreign: w.foreign, Reached: w.reached}
	fam := scenario
	if i := strings.IndexByte(fam, '/'); i > 0 {
		fam = fam[:i]
	}
	for _, f := range w.findings {
		o.Findings = append(o.Findings, explore.Finding{Key: fam + ":" + f.Key, What: f.What})
	}
	lastWorld = w
	return o
}

var lastWorld *World

// TestWorker is the worker side: tasks on stdin, reports on stdout.
func TestWorker(t *testing.T) {
	if os.Getenv("VERIF_ROLE") != "worker" {
		t.Skip()
	}
	theT = t
	w := &explore.Worker{Run: runOne, Filters: filters}
	max, _ := strconv.ParseInt(os.Getenv("VERIF_WORKER_MAXEXECS"), 10, 64)
	w.Serve(os.Stdin, os.Stdout, max)
	exitCode = 0
}

func workerCmd() *exec.Cmd {
	c := exec.Command(os.Args[0], "-test.run", "^TestWorker$", "-test.timeout", "0")
	c.Env = append(os.Environ(), "VERIF_ROLE=worker", "GOMAXPROCS=1",
		"GODEBUG=asyncpreemptoff=1", "VERIF_WORKER_MAXEXECS=3000")
	return c
}

// Job is one exploration of one scenario.
type Job struct {
	Scenario string
	// Scenarios, when set, is a batch of scenarios explored together
	// with the same budgets (Scenario is then only a label).
	Scenarios []string
	Budgets   []explore.Budget
	Filter    string
	Split     int
}

func B(s, f int) explore.Budget { return explore.Budget{S: s, F: f} }

// TestCheck is the master: it explores the jobs of the property named by
// VERIF_PROP at tier VERIF_TIER, confirms every candidate violation by
// replaying it five times, and writes the evidence.
func TestCheck(t *testing.T) {
	prop := os.Getenv("VERIF_PROP")
	if prop == "" || os.Getenv("VERIF_ROLE") != "" {
		t.Skip()
	}
	theT = t
	part := os.Getenv("VERIF_PART")
	r := ev.StartPart(prop, "model_checking", part)
	jobs, budgetS := jobsFor(prop, r.Thorough())
	if adhoc := os.Getenv("VERIF_JOBS"); adhoc != "" {
		// development aid (./verif explore): "scenario@s,f[@filter];..."
		jobs, budgetS = nil, 600
		for _, js := range strings.Split(adhoc, ";") {
			f := strings.Split(js, "@")
			var s0, f0 int
			fmt.Sscanf(f[1], "%d,%d", &s0, &f0)
			j := Job{Scenario: f[0], Budgets: []explore.Budget{B(s0, f0)}, Split: 1}
			if len(f) > 2 {
				j.Filter = f[2]
			}
			jobs = append(jobs, j)
		}
	}
	if len(jobs) == 0 {
		ev.Framework("no jobs for property %s", prop)
	}
	deadline := time.Now().Add(time.Duration(budgetS) * time.Second)
	m := &explore.Master{Cmd: workerCmd, Workers: runtime.NumCPU()}

	var (
		total      explore.Report
		hashes     int
		states     int
		perJob     []map[string]any
		sampleDone = map[string]bool{}
	)
	for ji, j := range jobs {
		// every job gets a fair share of what is left of the budget
		jobDeadline := deadline
		if left := time.Until(deadline); left > 0 {
			share := time.Duration(float64(left) / float64(len(jobs)-ji) * 1.5)
			if d := time.Now().Add(share); d.Before(jobDeadline) {
				jobDeadline = d
			}
		}
		// Non-vacuity and determinism gate on the canonical schedule:
		// run it twice, demand identical traces.
		scen := j.Scenarios
		if len(scen) == 0 {
			scen = []string{j.Scenario}
		}
		gate := scen
		if len(gate) > 3 {
			gate = []string{scen[0], scen[len(scen)/2], scen[len(scen)-1]}
		}
		var o1 *explore.Outcome
		skipJob := false
		for _, sn := range gate {
			o1 = runOne(sn, nil, false)
			o2 := runOne(sn, nil, false)
			if o1.Exec.Hash != o2.Exec.Hash || len(o1.Exec.Points) != len(o2.Exec.Points) {
				if r.Violations() > 0 {
					// The tree already violates the property (confirmed,
					// replayed violations of earlier jobs); a job that
					// cannot be explored on it does not turn that verdict
					// into a framework error.
					fmt.Printf("note: job %s skipped: its canonical schedule is not deterministic on this tree, on which earlier jobs found violations\n", sn)
					skipJob = true
					break
				}
				ev.Framework("scenario %s: canonical schedule is not deterministic (hash %x vs %x, points %d vs %d)",
					sn, o1.Exec.Hash, o2.Exec.Hash, len(o1.Exec.Points), len(o2.Exec.Points))
			}
			if !sampleDone[sn] {
				sampleDone[sn] = true
				r.Sample(map[string]any{
					"scenario": sn, "schedule": "canonical (all choices 0)",
					"choice_points": len(o1.Exec.Points), "steps": o1.Exec.Steps,
					"virtual_time_s": o1.Exec.Elapsed.Seconds(), "outcome": o1.Class,
				})
			}
		}
		if skipJob {
			continue
		}
		var roots []explore.Task
		for _, sn := range scen {
			roots = append(roots, explore.Task{Scenario: sn, Budgets: j.Budgets, Filter: j.Filter,
				Split: j.Split, DeadlineUnix: jobDeadline.Unix(), Known: r.OpenKeys()})
		}
		sum, err := m.Explore(roots)
		if err != nil {
			ev.Framework("exploration of %s failed: %v", j.Scenario, err)
		}
		total.Execs += sum.Execs
		total.Steps += sum.Steps
		total.Points += sum.Points
		total.Ineffective += sum.Ineffective
		hashes += sum.DistinctHashes
		states += sum.DistinctStates
		info := map[string]any{
			"scenario": j.Scenario, "scenarios_in_batch": len(scen), "budgets": fmt.Sprint(j.Budgets), "filter": j.Filter,
			"executions": sum.Execs, "scheduler_steps": sum.Steps,
			"distinct_traces": sum.DistinctHashes, "distinct_states": sum.DistinctStates,
			"distinct_outcomes": len(sum.Classes), "ineffective_select_prefs": sum.Ineffective,
			"by_level": sum.ByLevel, "deviation_kinds": sum.Kinds, "ends": sum.Ends,
			"foreign_events": sum.Foreign, "reached": sum.Reached,
			"canonical_points": len(o1.Exec.Points), "complete": !sum.Truncated,
			"wall_s": sum.Wall.Seconds(),
		}
		outcomes := make([]string, 0, len(sum.Classes))
		for c := range sum.Classes {
			outcomes = append(outcomes, c)
		}
		sort.Strings(outcomes)
		if len(outcomes) > 8 {
			outcomes = outcomes[:8]
		}
		info["outcome_samples"] = outcomes
		perJob = append(perJob, info)
		if sum.Truncated {
			r.NotExhaustive(fmt.Sprintf("%s %v: wall-clock budget reached; see by_level for what was run", j.Scenario, j.Budgets))
		}
		fmt.Printf("job %-40s budgets=%v execs=%d traces=%d states=%d outcomes=%d wall=%.1fs%s\n",
			j.Scenario, j.Budgets, sum.Execs, sum.DistinctHashes, sum.DistinctStates, len(sum.Classes),
			sum.Wall.Seconds(), map[bool]string{true: " (truncated)", false: ""}[sum.Truncated])

		// Confirm and report violations (fewest deviations first).
		seen := map[string]bool{}
		for _, v := range sum.Violations {
			if seen[v.Key] {
				continue
			}
			seen[v.Key] = true
			confirmAndReport(r, v)
		}
		for _, smp := range sum.Samples {
			r.Sample(map[string]any{"explored_schedule": smp})
		}
		// a sample deviating schedule
		if sum.Execs > 1 {
			r.Sample(map[string]any{"scenario": j.Scenario, "explored_levels": sum.ByLevel,
				"deviation_kinds_taken": sum.Kinds})
		}
	}
	r.Set("states", int64(states))
	r.Set("transitions", total.Steps)
	r.Set("traces_validated_against_impl", total.Execs)
	r.Set("evaluations", total.Execs)
	r.Set("distinct_nontrivial", int64(hashes))
	r.Set("rule", "every execution of each listed scenario whose deviation counts (scheduling, fault) lie in the downward closure of the listed budgets, run on the instrumented copy of the real code under the controlled scheduler; distinct_nontrivial = distinct execution traces (hash of all scheduler decisions and thread events); states = distinct quiescent-state fingerprints")
	r.Set("jobs", perJob)
	r.Set("choice_points_total", total.Points)
	r.Assume("steps between two scheduling points are atomic (exact for race-free code; races are looked for by C18)")
	r.Assume("which waiter the runtime wakes on one channel and the firing order of equal-deadline runtime timers are fixed, not enumerated")
	r.Assume("built with go1.26.8 (testing/synctest); instrumented copy passes the package's own tests with the scheduler absent")
	exitCode = r.Finish()
}

// confirmAndReport replays a candidate violation five times; it is reported
// only if every replay fails with the same key and the same trace.
func confirmAndReport(r *ev.Run, v explore.Violation) {
	var hash uint64
	for i := 0; i < 5; i++ {
		o := runOne(v.Scenario, v.Choices, false)
		found := false
		for _, f := range o.Findings {
			if f.Key == v.Key {
				found = true
			}
		}
		if !found && strings.Contains(v.Key, "leak/timer/") {
			// The tail of a teardown runs in the free-running drain; a
			// timer observation that depends on it is not reported
			// unless it reproduces.
			r.Set("unconfirmed_timer_candidates", 1)
			return
		}
		if (!found || (i > 0 && o.Exec.Hash != hash)) && r.Violations() > 0 {
			// confirmed violations of this tree have been reported
			// already: a further candidate that does not replay
			// identically is dropped, it does not undo them
			fmt.Printf("note: candidate %s of %s dropped: it does not reproduce deterministically\n", v.Key, v.Scenario)
			return
		}
		if !found || (i > 0 && o.Exec.Hash != hash) {
			ev.Framework("violation %s of %s does not reproduce deterministically on replay %d (found=%v hash %x vs %x) choices=%v",
				v.Key, v.Scenario, i, found, o.Exec.Hash, hash, v.Choices)
		}
		hash = o.Exec.Hash
	}
	o := runOne(v.Scenario, v.Choices, true)
	tr := o.Exec.Trace
	if len(tr) > 400 {
		tr = append(tr[:100:100], tr[len(tr)-300:]...)
	}
	r.Violation(v.Key, v.What, map[string]any{
		"engine": "gbnmc", "scenario": v.Scenario, "choices": v.Choices,
		"deviations": map[string]int{"scheduling": v.DS, "fault": v.DF},
		"trace_hash": fmt.Sprintf("%x", hash), "trace": tr,
	})
}

// TestReplay re-runs one recorded schedule with a full trace.
func TestReplay(t *testing.T) {
	path := os.Getenv("VERIF_REPLAY")
	if path == "" {
		t.Skip()
	}
	theT = t
	b, err := os.ReadFile(path)
	if err != nil {
		ev.Framework("%v", err)
	}
	var doc struct {
		Key    string `json:"key"`
		Replay struct {
			Scenario string `json:"scenario"`
			Choices  []int  `json:"choices"`
		} `json:"replay"`
	}
	if err := json.Unmarshal(b, &doc); err != nil {
		ev.Framework("%v", err)
	}
	o := runOne(doc.Replay.Scenario, doc.Replay.Choices, true)
	for _, l := range o.Exec.Trace {
		fmt.Println(l)
	}
	fmt.Printf("end=%s class=%s hash=%x\n", o.Exec.End, o.Class, o.Exec.Hash)
	exitCode = 0
	for _, f := range o.Findings {
		fmt.Printf("FINDING %s: %s\n", f.Key, f.What)
		exitCode = 1
	}
}

// TestRunOne runs a single scenario/prefix given in the environment; a
// development aid.
func TestRunOne(t *testing.T) {
	name := os.Getenv("VERIF_SCENARIO")
	if name == "" {
		t.Skip()
	}
	theT = t
	var prefix []int
	if p := os.Getenv("VERIF_PREFIX"); p != "" {
		for _, s := range strings.Split(p, ",") {
			n, _ := strconv.Atoi(s)
			prefix = append(prefix, n)
		}
	}
	start := time.Now()
	o := runOne(name, prefix, os.Getenv("VERIF_TRACE") != "")
	for _, l := range o.Exec.Trace {
		fmt.Println(l)
	}
	fmt.Printf("end=%s points=%d steps=%d elapsed=%v class=%s hash=%x leftover=%v deadlock=%v wall=%v\n",
		o.Exec.End, len(o.Exec.Points), o.Exec.Steps, o.Exec.Elapsed, o.Class, o.Exec.Hash,
		o.Exec.Leftover, o.Exec.BubbleDeadlock, time.Since(start))
	for _, f := range o.Findings {
		fmt.Printf("FINDING %s: %s\n", f.Key, f.What)
	}
	for _, f := range o.Foreign {
		fmt.Printf("FOREIGN %s\n", f)
	}
	kinds := map[string]int{}
	for _, p := range o.Exec.Points {
		for _, a := range p.Alts[1:] {
			kinds[a.Kind.String()]++
		}
	}
	fmt.Printf("alternatives by kind: %v\n", kinds)
	exitCode = 0
}

// TestRace is the auxiliary free-running pass of C18: the bodies of the
// concurrency scenarios run with the scheduler absent in a binary built with
// -race. It enumerates nothing; a race report is a genuine finding (the
// detector has no false positives), silence is weak evidence.
func TestRace(t *testing.T) {
	if os.Getenv("VERIF_RACE") == "" {
		t.Skip()
	}
	theT = t
	reps, _ := strconv.Atoi(os.Getenv("VERIF_RACE_REPS"))
	if reps == 0 {
		reps = 20
	}
	scenarios := []string{
		"coincide/N=2", "coincide/N=2/at=1999ms", "coincide/N=2/at=2001ms", "coincide/N=1",
		"ticker2", "tm3", "close/N=2/k=2", "uni/N=2/k=5/ka=2s,1s",
		// retransmissions while acknowledgements come in (every 3rd / 4th
		// packet of a direction is lost), adaptive timeouts
		"bidi/N=3/k1=12/k2=12/adaptive/freeloss=3", "uni/N=2/k=16/adaptive/freeloss=4/ka=2s,1s",
		"tmstress", "tmstress/static", "queue3",
	}
	if only := os.Getenv("VERIF_RACE_ONLY"); only != "" {
		scenarios = strings.Split(only, ";")
	}
	runs := 0
	for _, sn := range scenarios {
		for i := 0; i < reps; i++ {
			sc := Build(sn)
			var w *World
			var x *vrt.Exec
			done := make(chan struct{})
			go func() {
				defer close(done)
				x = vrt.RunFree(t, sc.Cfg, func(s *vrt.Sched) vrt.Env {
					w = newWorld(s, sc)
					return w
				})
			}()
			// Watchdog (real time): a free run takes milliseconds. One
			// that is still going after 90 s is stuck; with the real sync
			// types of this build a lock-order deadlock shows exactly like
			// that (goroutines waiting for a mutex are not durably blocked,
			// so the bubble's clock stops as well).
			select {
			case <-done:
			case <-time.After(90 * time.Second):
				first := lockWaiters()
				time.Sleep(3 * time.Second)
				second := lockWaiters()
				var stuck []string
				for g, site := range first {
					if second[g] == site {
						stuck = append(stuck, site)
					}
				}
				sort.Strings(stuck)
				if len(stuck) >= 2 {
					fmt.Printf("RACEPASS-DEADLOCK scenario=%s goroutines=%d sites=%s\n", sn, len(stuck), strings.Join(stuck, ","))
				} else {
					fmt.Printf("RACEPASS-TIMEOUT scenario=%s\n", sn)
				}
				fmt.Printf("RACEPASS runs=%d scenarios=%d\n", runs, len(scenarios))
				exitCode = 0
				os.Exit(0)
			}
			runs++
			for _, p := range x.Panics {
				fmt.Printf("RACEPASS-PANIC scenario=%s thread=%s %s\n", sn, p.Thread, p.Value)
			}
			_ = w
		}
	}
	fmt.Printf("RACEPASS runs=%d scenarios=%d\n", runs, len(scenarios))
	exitCode = 0
}

// lockWaiters returns, per goroutine id, the first gbn frame of every
// goroutine that is waiting for a sync.Mutex / sync.RWMutex right now.
func lockWaiters() map[string]string {
	buf := make([]byte, 8<<20)
	buf = buf[:runtime.Stack(buf, true)]
	out := map[string]string{}
	for _, g := range strings.Split(string(buf), "\n\n") {
		lines := strings.Split(g, "\n")
		if len(lines) == 0 || !strings.HasPrefix(lines[0], "goroutine ") {
			continue
		}
		hdr := lines[0]
		if !strings.Contains(hdr, "sync.Mutex.Lock") && !strings.Contains(hdr, "sync.RWMutex") && !strings.Contains(hdr, "semacquire") {
			continue
		}
		id := strings.Fields(hdr)[1]
		for _, l := range lines[1:] {
			if i := strings.Index(l, "lightning-node-connect/gbn."); i >= 0 && !strings.Contains(l, "/vrt") {
				f := l[i+len("lightning-node-connect/"):]
				if j := strings.LastIndexByte(f, '('); j > 0 {
					f = f[:j]
				}
				out[id] = f
				break
			}
		}
	}
	return out
}
