package gbnh

import (
	"fmt"
	"sort"
	"strconv"
	"strings"
	"time"

	"github.com/lightninglabs/lightning-node-connect/gbn"
	"github.com/lightninglabs/lightning-node-connect/gbn/vrt"
)

// FaultCfg says which transport faults the environment offers.
type FaultCfg struct {
	Drop, Dup      bool
	Delay          bool   // delay without drop/dup
	AfterHandshake bool   // only once both constructors have returned
	Max            int    // at most this many fault actions per execution (0 = budget only)
	Only           string // restrict to one link ("c2s"/"s2c")
	SendErr        bool   // a transient write error: one call of a send function fails
}

// Scenario describes one closed system.
type Scenario struct {
	Name string
	N    uint8

	UpdateFreq int           // freq=<n>: every n-th response updates the adaptive timeout (0 = default, 100)
	Static     time.Duration // static resend timeout (0 = adaptive)
	StaticS    time.Duration // the server's static resend timeout when it differs (RS=)
	Handshake  time.Duration // handshake timeout (0 = default)
	PingC      time.Duration // client keepalive ping (0 = off)
	PongC      time.Duration
	PingS      time.Duration
	PongS      time.Duration
	MaxChunk   int
	ServerOnly []gbn.Option

	ClientScripts [][]Op
	ServerScripts [][]Op
	ServerFirst   bool
	StaleC2S      [][]byte
	StaleS2C      [][]byte

	Faults       FaultCfg
	ExtraActions func(w *World) []vrt.Action
	// PreActions runs at every quiescent state before the actions are
	// listed (deterministic environment transitions, not choices).
	PreActions func(w *World)

	Cfg          vrt.Config
	Goal         func(w *World) bool
	IdleAfter    time.Duration
	Monitors     []func(w *World)
	Final        []func(w *World, x *vrt.Exec)
	NoDrainClose bool
	// Latency is a fixed one-way delay of every packet (0 = none).
	Latency time.Duration
	// FreeLoss, in the free-running race pass only: every FreeLoss-th
	// packet of a direction is lost (0 = none), so that retransmissions
	// happen there too.
	FreeLoss int
	// RawClient, when set, replaces the real client by a harness thread
	// that speaks the protocol by hand; RawN is the window it proposes.
	RawClient func(w *World)
	RawN      uint8
	// Custom, when set, replaces the two endpoints by threads of its own
	// (unit-level scenarios on one component).
	Custom func(w *World)
	// NoCloseAllowed: no endpoint may shut down by itself (keepalive off).
	NoCloseAllowed bool
	// Owns says which cross-cutting events are violations in this
	// scenario's check ("panic", "leak"); others are counted as foreign.
	Owns map[string]bool
}

func (sc *Scenario) timeoutOpts(ping, pong time.Duration, static time.Duration) []gbn.TimeoutOptions {
	var to []gbn.TimeoutOptions
	if static > 0 {
		to = append(to, gbn.WithStaticResendTimeout(static))
	}
	if sc.Handshake > 0 {
		to = append(to, gbn.WithHandshakeTimeout(sc.Handshake))
	}
	if sc.UpdateFreq > 0 {
		to = append(to, gbn.WithTimeoutUpdateFrequency(sc.UpdateFreq))
	}
	if ping > 0 {
		to = append(to, gbn.WithKeepalivePing(ping, pong))
	}
	return to
}

func (sc *Scenario) clientOpts() []gbn.Option {
	opts := []gbn.Option{gbn.WithTimeoutOptions(sc.timeoutOpts(sc.PingC, sc.PongC, sc.Static)...)}
	if sc.MaxChunk > 0 {
		opts = append(opts, gbn.WithMaxSendSize(sc.MaxChunk))
	}
	return opts
}

func (sc *Scenario) serverOpts() []gbn.Option {
	static := sc.Static
	if sc.StaticS > 0 {
		static = sc.StaticS
	}
	opts := []gbn.Option{gbn.WithTimeoutOptions(sc.timeoutOpts(sc.PingS, sc.PongS, static)...)}
	if sc.MaxChunk > 0 {
		opts = append(opts, gbn.WithMaxSendSize(sc.MaxChunk))
	}
	return append(opts, sc.ServerOnly...)
}

// params parses "k=v/k=v" suffixes of scenario names.
type params map[string]string

func parseName(name string) (string, params) {
	parts := strings.Split(name, "/")
	p := params{}
	for _, kv := range parts[1:] {
		if i := strings.IndexByte(kv, '='); i > 0 {
			p[kv[:i]] = kv[i+1:]
		} else {
			p[kv] = "1"
		}
	}
	return parts[0], p
}

func (p params) int(k string, def int) int {
	if v, ok := p[k]; ok {
		n, err := strconv.Atoi(v)
		if err != nil {
			panic("bad scenario parameter " + k + "=" + v)
		}
		return n
	}
	return def
}

func (p params) dur(k string, def time.Duration) time.Duration {
	if v, ok := p[k]; ok {
		d, err := time.ParseDuration(v)
		if err != nil {
			panic("bad scenario parameter " + k + "=" + v)
		}
		return d
	}
	return def
}

func (p params) has(k string) bool { _, ok := p[k]; return ok }

// payload builds a distinctive message body: tag, index, then filler up to
// size bytes.
func payload(tag byte, i, size int) []byte {
	b := []byte(fmt.Sprintf("%c%03d:", tag, i))
	if size < 0 {
		return b
	}
	for len(b) < size {
		b = append(b, byte('a'+len(b)%23))
	}
	return b[:size]
}

func sends(tag byte, k, size int) []Op {
	var ops []Op
	for i := 0; i < k; i++ {
		ops = append(ops, Op{Kind: "send", Data: payload(tag, i, size)})
	}
	return ops
}

func recvs(k int) []Op {
	var ops []Op
	for i := 0; i < k; i++ {
		ops = append(ops, Op{Kind: "recv"})
	}
	return ops
}

// builders maps scenario family names to constructors.
var builders = map[string]func(name string, p params) *Scenario{}

// Build constructs the scenario with the given full name.
func Build(name string) *Scenario {
	fam, p := parseName(name)
	b := builders[fam]
	if b == nil {
		var fams []string
		for k := range builders {
			fams = append(fams, k)
		}
		sort.Strings(fams)
		panic(fmt.Sprintf("unknown scenario family %q (have %v)", fam, fams))
	}
	sc := b(name, p)
	sc.Name = name
	if sc.Cfg.Horizon == 0 {
		sc.Cfg.Horizon = 120 * time.Second
	}
	if sc.Cfg.DrainTime == 0 {
		sc.Cfg.DrainTime = 30 * time.Second
	}
	if sc.Goal == nil {
		sc.Goal = func(w *World) bool { return w.appsFinished() }
	}
	if sc.Owns == nil {
		sc.Owns = map[string]bool{}
	}
	return sc
}

// common applies the parameters shared by all traffic scenarios.
func common(sc *Scenario, p params) {
	sc.N = uint8(p.int("N", 2))
	sc.Static = p.dur("R", time.Second)
	if p.has("adaptive") {
		sc.Static = 0
	}
	// RS=<d>: the two ends have different resend timeouts (adaptive timeouts
	// diverge like this when only one side has been boosted)
	sc.StaticS = p.dur("RS", 0)
	sc.Handshake = p.dur("H", 0)
	if p.has("ka") {
		// ka=<ping>,<pong> on both sides; the server pings first like
		// the mailbox configuration.
		parts := strings.Split(p["ka"], ",")
		ping, _ := time.ParseDuration(parts[0])
		pong, _ := time.ParseDuration(parts[1])
		sc.PingS, sc.PongS = ping, pong
		sc.PingC, sc.PongC = ping+2*time.Second, pong
	}
	sc.MaxChunk = p.int("chunk", 0)
	sc.UpdateFreq = p.int("freq", 0)
	if p.has("lat") {
		sc.Latency = p.dur("lat", 0)
	}
	if p.has("tmlive") {
		// judged on how the connection feeds its timeout manager (C20)
		sc.Monitors = append(sc.Monitors, monTimeoutSamples)
	}
	sc.Cfg.LockPoints = p.has("locks")
	// Time-bound oracles assume goroutines are not starved: virtual time
	// only advances when no thread can run, unless the scenario asks for
	// starvation deviations.
	sc.Cfg.NoStarve = !p.has("starve")
	sc.Faults = FaultCfg{Drop: true, Dup: true, AfterHandshake: !p.has("hsfaults"), SendErr: p.has("senderr")}
	sc.ServerFirst = p.has("serverfirst")
	sc.FreeLoss = p.int("freeloss", 0)
}

// lateApps: pre=<d>: the sender's application starts late (the handshake is
// long over, or a restarted server handshake is completed by its first DATA);
// rpre=<d>: the receiver's application starts late (more than a window of
// messages arrives before the first Recv).
func lateApps(sc *Scenario, p params) {
	if p.has("pre") {
		sc.ClientScripts[0] = append([]Op{{Kind: "sleep", D: p.dur("pre", 0)}}, sc.ClientScripts[0]...)
	}
	if p.has("rpre") {
		last := len(sc.ServerScripts) - 1
		sc.ServerScripts[last] = append([]Op{{Kind: "sleep", D: p.dur("rpre", 0)}}, sc.ServerScripts[last]...)
	}
}

func init() {
	// uni: the client sends k distinct messages, the server receives them.
	builders["uni"] = func(name string, p params) *Scenario {
		sc := &Scenario{}
		common(sc, p)
		k := p.int("k", 3)
		sc.ClientScripts = [][]Op{sends('c', k, p.int("size", -1))}
		sc.ServerScripts = [][]Op{recvs(k)}
		lateApps(sc, p)
		if p.has("win") {
			// judged on the window as well (C09)
			sc.Monitors = append(sc.Monitors, monWindow)
		}
		return sc
	}
	// bidi: both directions at once, separate sender and receiver threads.
	builders["bidi"] = func(name string, p params) *Scenario {
		sc := &Scenario{}
		common(sc, p)
		k1, k2 := p.int("k1", 2), p.int("k2", 2)
		sc.ClientScripts = [][]Op{sends('c', k1, -1), recvs(k2)}
		sc.ServerScripts = [][]Op{sends('s', k2, -1), recvs(k1)}
		return sc
	}
}

func init() {
	for _, fam := range []string{"uni", "bidi"} {
		b := builders[fam]
		builders[fam] = func(name string, p params) *Scenario {
			sc := b(name, p)
			sc.Monitors = append(sc.Monitors, monPrefix)
			return sc
		}
	}
}

// ---------------------------------------------------------------- C12: Close

// closeActions offers "a goroutine calls Close on side X now" (at most max per
// side) and, before a constructor has returned, "the constructor's context is
// cancelled now" as scheduling deviations.
func closeActions(max int) func(w *World) []vrt.Action {
	return func(w *World) []vrt.Action {
		var acts []vrt.Action
		for _, e := range []*Endpoint{w.C, w.S} {
			e := e
			used, _ := w.extra["closers:"+e.Name].(int)
			if e.Conn != nil && used < max {
				acts = append(acts, vrt.Action{
					Label: "closer:" + e.Name, Kind: vrt.KEnvSched,
					Do: func() {
						w.extra["closers:"+e.Name] = used + 1
						w.closersUsed++
						w.extra["lastCloser"] = w.s.Now()
						name := fmt.Sprintf("closer%d-%s", used, e.Name)
						w.s.SpawnNow(name, func() {
							// Close twice, then probe that later calls fail.
							e.runScript(name, []Op{
								{Kind: "close"}, {Kind: "close"},
								{Kind: "send", Data: []byte("after-close")},
								{Kind: "recv"},
							})
						})
					},
				})
			}
			if !e.CtorDone && w.extra["cancel:"+e.Name] == nil {
				acts = append(acts, vrt.Action{
					Label: "cancel-ctx:" + e.Name, Kind: vrt.KEnvSched,
					Do: func() {
						w.extra["cancel:"+e.Name] = true
						w.closersUsed++
						w.extra["lastCloser"] = w.s.Now()
						e.cancel()
					},
				})
			}
		}
		return acts
	}
}

func init() {
	// close: light traffic, one receiver blocked for ever on each side,
	// Close injected at any point.
	builders["close"] = func(name string, p params) *Scenario {
		sc := &Scenario{}
		common(sc, p)
		k := p.int("k", 2)
		sc.Faults = FaultCfg{}
		sc.ClientScripts = [][]Op{sends('c', k, -1), recvs(1)}
		sc.ServerScripts = [][]Op{recvs(k + 1)}
		sc.ExtraActions = closeActions(p.int("closers", 1))
		settle := 8 * time.Second
		sc.Goal = func(w *World) bool {
			if w.closersUsed > 0 {
				last, _ := w.extra["lastCloser"].(time.Duration)
				return w.s.Now() >= last+settle
			}
			// without a closer: the k messages have arrived
			return len(received(w.S)) >= k
		}
		sc.Monitors = append(sc.Monitors, monPrefix)
		sc.Final = append(sc.Final, finalClose)
		sc.Owns = map[string]bool{"panic": true, "leak": true}
		sc.Cfg.Horizon = 60 * time.Second
		return sc
	}
	// closestall: the server->client direction is dead after the
	// handshake, so the client fills its window, blocks in Send and keeps
	// resending; Close injected at any point of that.
	builders["closestall"] = func(name string, p params) *Scenario {
		sc := &Scenario{}
		common(sc, p)
		sc.Faults = FaultCfg{}
		n := int(sc.N)
		sc.ClientScripts = [][]Op{sends('c', n+1, -1)}
		sc.ServerScripts = [][]Op{recvs(n + 2)}
		sc.ExtraActions = closeActions(p.int("closers", 1))
		sc.PreActions = func(w *World) {
			if w.handshakeDone() && !w.s2c.blackhole {
				// not a choice: the link dies as soon as the
				// handshake is over
				w.s2c.mu.Lock()
				w.s2c.blackhole = true
				w.s2c.inflight = nil
				w.s2c.mu.Unlock()
				w.blackholed = true
			}
		}
		until := p.dur("until", 6*time.Second)
		sc.Goal = func(w *World) bool {
			if w.closersUsed > 0 {
				last, _ := w.extra["lastCloser"].(time.Duration)
				return w.s.Now() >= last+8*time.Second
			}
			return w.s.Now() >= until
		}
		sc.Final = append(sc.Final, finalClose)
		sc.Owns = map[string]bool{"panic": true, "leak": true}
		sc.Cfg.Horizon = 60 * time.Second
		return sc
	}
	// closeblock: after the handshake the transport's send function stops
	// accepting anything (it blocks until the context it was given ends),
	// so the send goroutine sits inside sendToStream; Close injected at
	// any point of that. Close has the FIN timeout to give up on the FIN.
	builders["closeblock"] = func(name string, p params) *Scenario {
		sc := &Scenario{}
		common(sc, p)
		sc.Faults = FaultCfg{}
		n := int(sc.N)
		sc.ClientScripts = [][]Op{sends('c', n+1, -1)}
		sc.ServerScripts = [][]Op{sends('s', 1, -1), recvs(n + 2)}
		sc.ExtraActions = closeActions(p.int("closers", 1))
		side := "both"
		if v, ok := p["side"]; ok {
			side = v
		}
		sc.PreActions = func(w *World) {
			if w.handshakeDone() && !w.blackholed {
				for _, l := range []*Link{w.c2s, w.s2c} {
					if side == "both" || (side == "c" && l == w.c2s) || (side == "s" && l == w.s2c) {
						l.mu.Lock()
						l.stall = true
						l.mu.Unlock()
					}
				}
				w.blackholed = true
				w.reached["transport-send-blocks"] = true
			}
		}
		until := p.dur("until", 4*time.Second)
		sc.Goal = func(w *World) bool {
			if w.closersUsed > 0 {
				last, _ := w.extra["lastCloser"].(time.Duration)
				return w.s.Now() >= last+8*time.Second
			}
			return w.s.Now() >= until
		}
		sc.Final = append(sc.Final, finalClose)
		sc.Owns = map[string]bool{"panic": true, "leak": true}
		sc.Cfg.Horizon = 60 * time.Second
		return sc
	}
}

// ---------------------------------------------------------------- C09: window

func init() {
	// fullwindow: the server->client direction (ACKs) is held in flight
	// after the handshake until `hold`; the client issues N+2 sends.
	builders["fullwindow"] = func(name string, p params) *Scenario {
		sc := &Scenario{}
		common(sc, p)
		n := int(sc.N)
		extra := p.int("extra", 2)
		hold := p.dur("hold", 2500*time.Millisecond)
		sc.ClientScripts = [][]Op{sends('c', n+extra, -1)}
		sc.ServerScripts = [][]Op{recvs(n + extra)}
		sc.PreActions = func(w *World) {
			if w.handshakeDone() && w.extra["held"] == nil {
				w.extra["held"] = true
				w.s2c.hold = true
			}
			if w.s2c.hold && w.s.Now() >= hold {
				w.s2c.hold = false
				w.extra["releasedAt"] = w.s.Now()
			}
		}
		sc.Monitors = append(sc.Monitors, monPrefix, monWindow, func(w *World) {
			// Blocking behaviour while the ACKs are held.
			if !w.s2c.hold {
				return
			}
			cs := w.C.calls("send")
			for i, c := range cs {
				if i < n && c.Returned {
					if c.End != c.Start {
						w.fail("window/send-waited", "Send #%d (of the first N=%d) took %v of virtual time although the window had room", i, n, c.End-c.Start)
					}
					w.reached["first-N-nonblocking"] = i == n-1 || w.reached["first-N-nonblocking"]
				}
				if i >= n && c.Returned && c.Err == "" {
					w.fail("window/send-not-blocked", "Send #%d returned while N=%d packets were outstanding and no acknowledgement had been delivered", i, n)
				}
				if i == n && !c.Returned {
					w.reached["send-N+1-blocked"] = true
				}
			}
		})
		sc.Final = append(sc.Final, finalAllDelivered)
		sc.Cfg.Horizon = 90 * time.Second
		return sc
	}
}

func init() {
	// pingwindow: keepalive on the client, the ACK direction held in
	// flight for a while. The client sends N-1 messages, stays silent for
	// more than a ping interval (so that a ping takes the last free slot of
	// the window) and then sends two more: pings count against the window
	// like any other DATA packet.
	builders["pingwindow"] = func(name string, p params) *Scenario {
		sc := &Scenario{}
		if !p.has("ka") {
			p["ka"] = "1s,4s"
		}
		p["kaside"] = "c"
		common(sc, p)
		kaSides(sc, p)
		sc.Faults = FaultCfg{}
		n := int(sc.N)
		hold := p.dur("hold", sc.PingC+3*time.Second)
		ops := sends('c', n-1, -1)
		ops = append(ops, Op{Kind: "sleep", D: sc.PingC + 500*time.Millisecond})
		for i := 0; i < 2; i++ {
			ops = append(ops, Op{Kind: "send", Data: payload('c', n-1+i, -1)})
		}
		sc.ClientScripts = [][]Op{ops}
		sc.ServerScripts = [][]Op{recvs(n + 1)}
		sc.PreActions = func(w *World) {
			if w.handshakeDone() && w.extra["held"] == nil {
				w.extra["held"] = true
				w.s2c.hold = true
			}
			if w.s2c.hold && w.s.Now() >= hold {
				w.s2c.hold = false
			}
		}
		sc.Monitors = append(sc.Monitors, monPrefix, monWindow, func(w *World) {
			if w.s2c.hold && w.s.Now() > sc.PingC+200*time.Millisecond {
				w.reached["ping-while-acks-held"] = true
			}
		})
		sc.Final = append(sc.Final, finalAllDelivered)
		sc.Cfg.Horizon = 90 * time.Second
		return sc
	}
}

// ---------------------------------------------------------------- C14: chunks

func init() {
	// chunk: the client sends messages of the given lengths with a
	// maximum chunk size; lens=a,b,c
	builders["chunk"] = func(name string, p params) *Scenario {
		sc := &Scenario{}
		common(sc, p)
		sc.MaxChunk = p.int("c", 2)
		var lens []int
		for _, l := range strings.Split(p["lens"], ",") {
			n, err := strconv.Atoi(l)
			if err != nil {
				panic("bad lens in " + name)
			}
			lens = append(lens, n)
		}
		var ops []Op
		for i, l := range lens {
			ops = append(ops, Op{Kind: "send", Data: chunkPayload(i, l)})
		}
		sc.ClientScripts = [][]Op{ops}
		sc.ServerScripts = [][]Op{recvs(len(lens))}
		lateApps(sc, p)
		sc.Monitors = append(sc.Monitors, monPrefix)
		sc.Final = append(sc.Final, finalAllDelivered)
		sc.Cfg.Horizon = 40 * time.Second
		sc.Cfg.DrainTime = 5 * time.Second
		return sc
	}
	// chunkto: like chunk, with a receive (and optionally send) timeout
	// that can expire inside a message; timed-out calls are retried.
	builders["chunkto"] = func(name string, p params) *Scenario {
		sc := builders["chunk"](name, p)
		rt := p.dur("rt", 0)
		st := p.dur("st", 0)
		nmsg := len(sc.ClientScripts[0])
		var rops []Op
		if rt > 0 {
			rops = append(rops, Op{Kind: "setrecv", D: rt})
		}
		for i := 0; i < nmsg; i++ {
			rops = append(rops, Op{Kind: "recvretry"})
		}
		sc.ServerScripts = [][]Op{rops}
		if st > 0 {
			ops := []Op{{Kind: "setsend", D: st}}
			for _, o := range sc.ClientScripts[0] {
				o.Kind = "sendretry"
				ops = append(ops, o)
			}
			sc.ClientScripts = [][]Op{ops}
			// a full window is what makes a Send wait: hold the ACKs
			holdUntil := p.dur("hold", 1500*time.Millisecond)
			sc.PreActions = func(w *World) {
				if w.handshakeDone() && w.extra["held"] == nil {
					w.extra["held"] = true
					w.s2c.hold = true
				}
				if w.s2c.hold && w.s.Now() >= holdUntil {
					w.s2c.hold = false
				}
			}
		}
		sc.Faults = FaultCfg{Delay: true, AfterHandshake: true}
		return sc
	}
}

func chunkPayload(i, l int) []byte {
	b := make([]byte, l)
	for j := range b {
		b[j] = byte('A' + (i*7+j)%26)
		if j == 0 {
			b[j] = byte('0' + i%10)
		}
	}
	return b
}

// ---------------------------------------------------------------- C10: handshake

func stalePacket(tok string, n uint8) []byte {
	var m gbn.Message
	switch tok {
	case "SYN":
		m = &gbn.PacketSYN{N: n}
	case "SYNX":
		// a SYN of an earlier connection that used another window size
		m = &gbn.PacketSYN{N: n + 3}
	case "SYNACK":
		m = &gbn.PacketSYNACK{}
	case "DATA":
		m = &gbn.PacketData{Seq: 0, FinalChunk: true, Payload: []byte("stale")}
	case "ACK":
		m = &gbn.PacketACK{Seq: 0}
	case "NACK":
		m = &gbn.PacketNACK{Seq: 0}
	case "FIN":
		m = &gbn.PacketFIN{}
	default:
		panic("unknown stale packet " + tok)
	}
	b, _ := m.Serialize()
	return b
}

func init() {
	// hs: handshake under faults and stale packets, then one message each
	// way. staleC / staleS = dot-separated packet types queued towards the
	// server / the client before anything else.
	builders["hs"] = func(name string, p params) *Scenario {
		sc := &Scenario{}
		common(sc, p)
		sc.Faults = FaultCfg{Drop: true, Dup: true}
		if p.has("nofaults") {
			sc.Faults = FaultCfg{}
		}
		for _, tok := range strings.Split(p["staleC"], ".") {
			if tok != "" {
				sc.StaleC2S = append(sc.StaleC2S, stalePacket(tok, sc.N))
			}
		}
		for _, tok := range strings.Split(p["staleS"], ".") {
			if tok != "" {
				sc.StaleS2C = append(sc.StaleS2C, stalePacket(tok, sc.N))
			}
		}
		sc.ClientScripts = [][]Op{sends('c', 1, -1), recvs(1)}
		sc.ServerScripts = [][]Op{sends('s', 1, -1), recvs(1)}
		settle := 45 * time.Second
		sc.Goal = func(w *World) bool {
			if w.appsFinished() && w.c2s.head() == nil && w.s2c.head() == nil {
				return true
			}
			return w.s.Now() >= w.lastFaultAt+settle
		}
		// let FINs and late packets land before judging the end state
		sc.IdleAfter = 5 * time.Second
		sc.Monitors = append(sc.Monitors, monHandshake, monWindow)
		sc.Final = append(sc.Final, finalHandshake)
		sc.Cfg.Horizon = 150 * time.Second
		sc.Cfg.DrainTime = 10 * time.Second
		return sc
	}
}

// ---------------------------------------------------------------- C06: progress

func init() {
	// prog: traffic scenario with the progress oracles. kind=uni|bidi.
	builders["prog"] = func(name string, p params) *Scenario {
		sc := &Scenario{}
		common(sc, p)
		k := p.int("k", 3)
		switch p["kind"] {
		case "bidi":
			sc.ClientScripts = [][]Op{sends('c', k, -1), recvs(k)}
			sc.ServerScripts = [][]Op{sends('s', k, -1), recvs(k)}
		default:
			sc.ClientScripts = [][]Op{sends('c', k, -1)}
			sc.ServerScripts = [][]Op{recvs(k)}
		}
		lateApps(sc, p)
		sc.NoCloseAllowed = !p.has("ka")
		sc.Monitors = append(sc.Monitors, monPrefix, monQuiet)
		sc.Final = append(sc.Final, finalAllDelivered, finalNoHang, finalQuiet)
		sc.IdleAfter = 24 * time.Second
		if p.has("ka") {
			// (idle keepalive traffic makes long idle periods costly)
			sc.IdleAfter = 12 * time.Second
		}
		sc.Cfg.Horizon = 150 * time.Second
		sc.Cfg.DrainTime = 10 * time.Second
		return sc
	}
}

func init() {
	// stream: the server streams k messages to the client at a steady pace
	// below the resend timeout while the client sends a few messages of its
	// own: inbound traffic must not keep postponing the retransmission of a
	// lost outbound packet.
	builders["stream"] = func(name string, p params) *Scenario {
		sc := &Scenario{}
		common(sc, p)
		k := p.int("k", 30)
		pace := p.dur("pace", 600*time.Millisecond)
		var sops []Op
		for i := 0; i < k; i++ {
			sops = append(sops, Op{Kind: "send", Data: payload('s', i, -1)}, Op{Kind: "sleep", D: pace})
		}
		cops := []Op{{Kind: "sleep", D: 2 * pace}}
		cops = append(cops, sends('c', p.int("kc", 2), -1)...)
		sc.ClientScripts = [][]Op{cops, recvs(k)}
		sc.ServerScripts = [][]Op{sops, recvs(p.int("kc", 2))}
		sc.NoCloseAllowed = !p.has("ka")
		sc.Monitors = append(sc.Monitors, monPrefix, monDeliveryBound(10*time.Second))
		sc.Final = append(sc.Final, finalAllDelivered)
		sc.Cfg.Horizon = 150 * time.Second
		sc.Cfg.DrainTime = 10 * time.Second
		return sc
	}
}

// ---------------------------------------------------------------- C13: keepalive

func kaSides(sc *Scenario, p params) {
	switch p["kaside"] {
	case "c":
		sc.PingS, sc.PongS = 0, 0
	case "s":
		sc.PingC, sc.PongC = 0, 0
	}
}

func init() {
	// kadead: keepalive on; the transport goes silent (both directions
	// drop everything, for ever) at a point chosen by the scheduler while
	// the client sends k messages.
	builders["kadead"] = func(name string, p params) *Scenario {
		sc := &Scenario{}
		if !p.has("ka") {
			p["ka"] = "5s,3s"
		}
		common(sc, p)
		kaSides(sc, p)
		sc.Faults = FaultCfg{}
		k := p.int("k", int(sc.N)+2)
		sc.ClientScripts = [][]Op{sends('c', k, -1)}
		if pace := p.dur("pace", 0); pace > 0 {
			// the application keeps sending at a steady pace (below
			// the ping interval), so the window fills only slowly once
			// the peer is gone
			var ops []Op
			for _, o := range sc.ClientScripts[0] {
				ops = append(ops, o, Op{Kind: "sleep", D: pace})
			}
			sc.ClientScripts[0] = ops
		}
		sc.ServerScripts = [][]Op{recvs(k + 1)}
		sc.ExtraActions = func(w *World) []vrt.Action {
			if !w.handshakeDone() || w.blackholed || w.goalReached {
				return nil
			}
			return []vrt.Action{{
				Label: "blackhole", Kind: vrt.KFault,
				Do: func() {
					w.blackholed = true
					w.blackholeAt = w.s.Now()
					w.faultsUsed++
					for _, l := range []*Link{w.c2s, w.s2c} {
						// onedir=<link>: only that direction goes
						// silent; the other one keeps working, so the
						// side that gives up can still tell its peer
						if od := p["onedir"]; od != "" && od != l.name {
							continue
						}
						l.mu.Lock()
						l.blackhole = true
						l.inflight = nil
						l.mu.Unlock()
					}
					// what is queued at this moment
					if w.C.Conn != nil {
						w.extra["queuedAtBlackhole"] = int(w.C.Conn.VerifSnapshot().Size)
					}
				},
			}}
		}
		sc.Goal = func(w *World) bool {
			if w.blackholed {
				// done when every side that has keepalive closed,
				// or well past the detection limit
				all := true
				maxPing := sc.PingC
				if sc.PingS > maxPing {
					maxPing = sc.PingS
				}
				if (sc.PingC > 0 && w.C.closedAt < 0) || (sc.PingS > 0 && w.S.closedAt < 0) {
					all = false
				}
				if p.has("onedir") && (w.C.closedAt < 0 || w.S.closedAt < 0) {
					all = false
				}
				if all {
					return true
				}
				return w.s.Now() >= w.blackholeAt+maxPing+sc.PongC+sc.PongS+16*time.Second
			}
			return w.s.Now() >= p.dur("until", 12*time.Second)
		}
		sc.IdleAfter = 2 * time.Second
		sc.Final = append(sc.Final, finalKeepaliveDead)
		sc.Cfg.Horizon = 120 * time.Second
		sc.Cfg.DrainTime = 10 * time.Second
		return sc
	}
	// kalive: keepalive on, healthy link with a fixed one-way latency,
	// both applications idle for a long time after a little traffic.
	builders["kalive"] = func(name string, p params) *Scenario {
		sc := &Scenario{}
		if !p.has("ka") {
			p["ka"] = "2s,1s"
		}
		common(sc, p)
		kaSides(sc, p)
		sc.Faults = FaultCfg{}
		sc.Latency = p.dur("lat", 0)
		sc.ClientScripts = [][]Op{sends('c', 1, -1)}
		sc.ServerScripts = [][]Op{recvs(1)}
		idle := p.dur("idle", 45*time.Second)
		sc.Goal = func(w *World) bool { return w.s.Now() >= idle }
		lossy := p.has("lossy")
		if lossy {
			// drops after the handshake: a lost answer may legitimately
			// close the connection, but only when nothing at all reached
			// the endpoint during the pong timeout that expired
			sc.Faults = FaultCfg{Drop: true, AfterHandshake: true}
		}
		sc.Monitors = append(sc.Monitors, func(w *World) {
			for _, x := range []struct {
				e    *Endpoint
				pong time.Duration
			}{{w.C, sc.PongC}, {w.S, sc.PongS}} {
				e := x.e
				if lossy {
					if e.closedAt < 0 || x.pong <= 0 {
						continue
					}
					// an endpoint that was told to close by the peer's FIN
					// did not close by keepalive
					fin, heard := false, time.Duration(-1)
					e.in.mu.Lock()
					for _, r := range e.in.deliveredLog {
						if r.At <= e.closedAt && pktName(r.Data) == "FIN" {
							fin = true
						}
						if r.At > e.closedAt-x.pong+10*time.Millisecond && r.At < e.closedAt-10*time.Millisecond {
							heard = r.At
						}
					}
					e.in.mu.Unlock()
					if !fin && heard >= 0 {
						w.fail("keepalive/live-peer-closed/"+e.Name+"/heard-within-pong-timeout",
							"%s closed the connection at %v although a packet of the peer reached it at %v, inside the pong timeout (%v) that had to expire first",
							e.Name, e.closedAt, heard, x.pong)
					}
					continue
				}
				if e.closedAt >= 0 {
					w.fail("keepalive/live-peer-closed/"+e.Name,
						"%s closed the connection at %v although the peer answered every packet within %v (< pong timeout)",
						e.Name, e.closedAt, 2*w.sc.Latency)
				}
			}
		})
		sc.Final = append(sc.Final, func(w *World, x *vrt.Exec) {
			pings := 0
			for _, l := range []*Link{w.c2s, w.s2c} {
				for _, r := range l.wire {
					if strings.HasPrefix(pktName(r.Data), "PING") {
						pings++
					}
				}
			}
			if pings >= 5 {
				w.reached["pings>=5"] = true
			}
		})
		sc.Cfg.Horizon = idle + 30*time.Second
		sc.Cfg.DrainTime = 10 * time.Second
		return sc
	}
}

// ---------------------------------------------------------------- C07: hostile packets on live endpoints

func hostileAlphabet(n uint8) [][]byte {
	s := n + 1
	vals := []uint8{0, 1, n - 1, n, n + 1, s - 1, s, 254, 255}
	seen := map[string]bool{}
	var out [][]byte
	add := func(b []byte) {
		if !seen[string(b)] {
			seen[string(b)] = true
			out = append(out, b)
		}
	}
	for _, v := range vals {
		add([]byte{gbn.SYN, v})
		add([]byte{gbn.ACK, v})
		add([]byte{gbn.NACK, v})
		add([]byte{gbn.DATA, v, 1, 0, 'x'})
		add([]byte{gbn.DATA, v, 0, 1})
		add([]byte{gbn.DATA, v, 1})
		add([]byte{gbn.DATA, v})
	}
	add([]byte{gbn.DATA})
	add([]byte{gbn.ACK})
	add([]byte{gbn.NACK})
	add([]byte{gbn.SYN})
	add([]byte{gbn.FIN})
	add([]byte{gbn.SYNACK})
	add([]byte{})
	add([]byte{0})
	add([]byte{7, 1, 2})
	add([]byte{255})
	return out
}

func init() {
	// inject: light traffic; at one point chosen by the scheduler one
	// packet of the hostile alphabet is put in front of one endpoint.
	builders["inject"] = func(name string, p params) *Scenario {
		sc := &Scenario{}
		common(sc, p)
		sc.Faults = FaultCfg{}
		k := p.int("k", 2)
		sc.ClientScripts = [][]Op{sends('c', k, -1), recvs(1)}
		sc.ServerScripts = [][]Op{recvs(k), sends('s', 1, -1)}
		alpha := hostileAlphabet(sc.N)
		if p["alpha"] == "acks" {
			// forged acknowledgements only, every value of the sequence
			// space and one beyond; combined with one dropped packet, so
			// that the bookkeeping they leave behind is exercised by a
			// retransmission
			alpha = nil
			for v := uint8(0); v <= sc.N+2; v++ {
				alpha = append(alpha, []byte{gbn.ACK, v}, []byte{gbn.NACK, v})
			}
			sc.Faults = FaultCfg{Drop: true, AfterHandshake: true}
		}
		sc.ExtraActions = func(w *World) []vrt.Action {
			if w.injectUsed >= 1 {
				return nil
			}
			if p.has("datafase") && !w.handshakeDone() {
				return nil
			}
			var acts []vrt.Action
			for _, l := range []*Link{w.c2s, w.s2c} {
				l := l
				for _, b := range alpha {
					b := b
					acts = append(acts, vrt.Action{
						Label: fmt.Sprintf("inject:%s:%x", l.name, b), Kind: vrt.KFault, OnlyIdle: true,
						Do: func() { w.injectUsed++; w.faultsUsed++; l.inject(b) },
					})
				}
			}
			return acts
		}
		sc.Goal = func(w *World) bool {
			if w.appsFinished() {
				return true
			}
			return w.injectUsed > 0 && w.s.Now() >= 20*time.Second
		}
		sc.Monitors = append(sc.Monitors, monWindow)
		sc.Owns = map[string]bool{"panic": true}
		sc.Cfg.Horizon = 40 * time.Second
		sc.Cfg.DrainTime = 5 * time.Second
		return sc
	}
	// synN: a raw peer plays the client side of the handshake with an
	// arbitrary window byte and then sends data and acknowledgements.
	builders["synN"] = func(name string, p params) *Scenario {
		sc := &Scenario{}
		common(sc, p)
		sc.Faults = FaultCfg{}
		v := uint8(p.int("v", 255))
		sc.RawN = v
		sc.RawClient = func(w *World) {
			send := func(m gbn.Message) {
				b, _ := m.Serialize()
				_ = w.c2s.send(w.C.ctx, b)
			}
			recvType := func() gbn.Message {
				b, err := w.s2c.recv(w.C.ctx)
				if err != nil {
					return nil
				}
				m, _ := safeDeserialize(b)
				return m
			}
			send(&gbn.PacketSYN{N: v})
			for i := 0; i < 3; i++ {
				if _, ok := recvType().(*gbn.PacketSYN); ok {
					break
				}
			}
			send(&gbn.PacketSYNACK{})
			for seq := uint8(0); seq < 3; seq++ {
				send(&gbn.PacketData{Seq: seq, FinalChunk: true, Payload: []byte{'r', seq}})
			}
			send(&gbn.PacketACK{Seq: 0})
			send(&gbn.PacketNACK{Seq: 1})
			time.Sleep(5 * time.Second)
			vrt.Point("raw.wake")
		}
		sc.ServerScripts = [][]Op{sends('s', 2, -1), recvs(1)}
		sc.Goal = func(w *World) bool { return w.s.Now() >= 5*time.Second }
		sc.Monitors = append(sc.Monitors, monWindow, monHandshake)
		sc.Owns = map[string]bool{"panic": true}
		sc.Cfg.Horizon = 20 * time.Second
		sc.Cfg.DrainTime = 5 * time.Second
		return sc
	}
}

// ---------------------------------------------------------------- C18: concurrent use

func init() {
	// ticker2: two threads drive one IntervalAwareForceTicker exactly the
	// way the send loop (wait for a tick, Reset) and the receive loop
	// (Reset, IsActive, Pause on every packet) of a connection do, and a
	// third one stops it; the "packet" arrives at the instant of a tick.
	builders["ticker2"] = func(name string, p params) *Scenario {
		sc := &Scenario{}
		common(sc, p)
		sc.Cfg.LockPoints = true
		sc.Faults = FaultCfg{}
		iv := p.dur("iv", 2*time.Second)
		rounds := p.int("rounds", 2)
		sc.Custom = func(w *World) {
			tk := gbn.NewIntervalAwareForceTicker(iv)
			tk.Resume()
			done := make(chan struct{}, 2)
			w.spawnApp("sendloop", func() {
				for i := 0; i < rounds; i++ {
					vrt.Point("sendloop.wait")
					select {
					case <-tk.Ticks():
						vrt.Woke("sendloop.tick")
						tk.Reset()
					case <-time.After(iv + iv/2):
						vrt.Woke("sendloop.timeout")
					}
				}
				done <- struct{}{}
			})
			w.spawnApp("recvloop", func() {
				for i := 0; i < rounds; i++ {
					time.Sleep(iv)
					vrt.Point("recvloop.packet")
					tk.Reset()
					if tk.IsActive() {
						tk.Pause()
					}
					tk.Resume()
				}
				done <- struct{}{}
			})
			w.spawnApp("stopper", func() {
				vrt.Point("stopper.wait")
				<-done
				vrt.Woke("stopper")
				vrt.Point("stopper.wait")
				<-done
				vrt.Woke("stopper")
				tk.Stop()
			})
		}
		sc.Owns = map[string]bool{"panic": true, "leak": true}
		sc.Final = append(sc.Final, finalDeadlock)
		sc.NoDrainClose = true
		sc.Cfg.Horizon = 30 * time.Second
		sc.Cfg.DrainTime = 5 * time.Second
		return sc
	}
	// tm3: three threads use one TimeoutManager the way the send loop, the
	// receive loop and API callers do.
	builders["tm3"] = func(name string, p params) *Scenario {
		sc := &Scenario{}
		common(sc, p)
		sc.Cfg.LockPoints = true
		sc.Faults = FaultCfg{}
		sc.Custom = func(w *World) {
			tm := gbn.NewTimeOutManager(nil, gbn.WithKeepalivePing(2*time.Second, time.Second))
			w.spawnApp("sender", func() {
				tm.Sent(&gbn.PacketSYN{N: 2}, false)
				tm.Sent(&gbn.PacketData{Seq: 0}, false)
				_ = tm.GetResendTimeout()
				tm.Sent(&gbn.PacketData{Seq: 0}, true)
				_ = tm.GetHandshakeTimeout()
			})
			w.spawnApp("receiver", func() {
				tm.Received(&gbn.PacketSYN{N: 2})
				_ = tm.GetResendTimeout()
				tm.Received(&gbn.PacketACK{Seq: 0})
				_ = tm.GetPingTime()
			})
			w.spawnApp("api", func() {
				tm.SetSendTimeout(time.Second)
				_ = tm.GetRecvTimeout()
				tm.SetRecvTimeout(time.Second)
				_ = tm.GetSendTimeout()
				_ = tm.GetFinSendTimeout()
			})
		}
		sc.Owns = map[string]bool{"panic": true, "leak": true}
		sc.Final = append(sc.Final, finalDeadlock)
		sc.NoDrainClose = true
		sc.Cfg.Horizon = 10 * time.Second
		sc.Cfg.DrainTime = time.Second
		return sc
	}
	// tmstress (free-running race pass only; nothing is enumerated): the
	// TimeoutManager calls of the send goroutine (first transmissions and
	// retransmissions), of the receive goroutine (ACKs, SYN, timeout
	// reads) and of API callers, repeated so that the short windows
	// between them overlap in real time.
	builders["tmstress"] = func(name string, p params) *Scenario {
		sc := &Scenario{}
		common(sc, p)
		sc.Faults = FaultCfg{}
		loops := p.int("loops", 3000)
		sc.Custom = func(w *World) {
			opts := []gbn.TimeoutOptions{gbn.WithKeepalivePing(2*time.Second, time.Second)}
			if p.has("static") {
				opts = append(opts, gbn.WithStaticResendTimeout(time.Second))
			}
			tm := gbn.NewTimeOutManager(nil, opts...)
			w.spawnApp("sender", func() {
				for i := 0; i < loops; i++ {
					seq := uint8(i % 8)
					tm.Sent(&gbn.PacketData{Seq: seq}, false)
					_ = tm.GetResendTimeout()
					tm.Sent(&gbn.PacketData{Seq: seq}, true)
					if i%16 == 0 {
						tm.Sent(&gbn.PacketSYN{N: 2}, false)
						tm.Sent(&gbn.PacketSYN{N: 2}, true)
					}
				}
			})
			w.spawnApp("receiver", func() {
				for i := 0; i < loops; i++ {
					tm.Received(&gbn.PacketACK{Seq: uint8(i % 8)})
					_ = tm.GetResendTimeout()
					if i%16 == 0 {
						tm.Received(&gbn.PacketSYN{N: 2})
						_ = tm.GetHandshakeTimeout()
					}
					_ = tm.GetPingTime()
					_ = tm.GetPongTime()
				}
			})
			w.spawnApp("api", func() {
				for i := 0; i < loops; i++ {
					tm.SetSendTimeout(time.Duration(i+1) * time.Millisecond)
					_ = tm.GetRecvTimeout()
					tm.SetRecvTimeout(time.Duration(i+1) * time.Millisecond)
					_ = tm.GetSendTimeout()
					_ = tm.GetFinSendTimeout()
					_ = tm.GetResendTimeout()
					_ = tm.GetHandshakeTimeout()
				}
			})
		}
		sc.Owns = map[string]bool{"panic": true, "leak": true}
		sc.NoDrainClose = true
		sc.Cfg.Horizon = 10 * time.Second
		sc.Cfg.DrainTime = time.Second
		return sc
	}
	// queue3: one send queue used the way the connection uses it: the send
	// loop adds packets and asks for the size, the receive loop processes
	// acknowledgements (in order, out of order, NACKs), a third thread
	// polls the size. Every lock operation is a scheduling point.
	builders["queue3"] = func(name string, p params) *Scenario {
		sc := &Scenario{}
		common(sc, p)
		sc.Cfg.LockPoints = true
		sc.Faults = FaultCfg{}
		sc.Custom = func(w *World) {
			tm := gbn.NewTimeOutManager(nil)
			resend := p.has("resend")
			q := gbn.VerifNewQueue(4, tm, func(pkt *gbn.PacketData) error {
				if resend {
					// what sendPacket does with a packet of the queue: it
					// serialises it and hands it to the transport (a
					// scheduling point: acknowledgements are processed
					// while a retransmission is being written)
					_, err := pkt.Serialize()
					vrt.Point("queue3.sendPkt")
					return err
				}
				return nil
			})
			w.spawnApp("sendloop", func() {
				for i := 0; i < 3; i++ {
					if q.Size() < 3 {
						q.AddPacket(&gbn.PacketData{Payload: []byte{byte(i)}})
					}
				}
				if resend {
					// the resend timer fired: go back N
					_ = q.Resend()
				}
			})
			w.spawnApp("recvloop", func() {
				if resend {
					// the delayed acknowledgements arrive meanwhile
					q.ProcessACK(0)
					q.ProcessACK(1)
					q.ProcessACK(2)
					return
				}
				q.ProcessNACK(2) // nothing of the kind outstanding (yet)
				q.ProcessACK(1)  // possibly out of order
				q.ProcessACK(0)
				q.ProcessNACK(1)
			})
			w.spawnApp("api", func() {
				_ = q.Size()
				_ = q.Size()
			})
		}
		sc.Owns = map[string]bool{"panic": true, "leak": true}
		sc.Final = append(sc.Final, finalDeadlock)
		sc.NoDrainClose = true
		sc.Cfg.Horizon = 10 * time.Second
		sc.Cfg.DrainTime = time.Second
		return sc
	}
	// coincide: a whole connection with keepalive on and lock points on;
	// application traffic is timed to arrive exactly when the peer's ping
	// timer fires, and several goroutines per side use the API at once.
	builders["coincide"] = func(name string, p params) *Scenario {
		sc := &Scenario{}
		if !p.has("ka") {
			p["ka"] = "2s,1s"
		}
		common(sc, p)
		sc.Cfg.LockPoints = !p.has("nolocks")
		sc.Faults = FaultCfg{}
		at := p.dur("at", 2*time.Second)
		sc.ClientScripts = [][]Op{
			{{Kind: "sleep", D: at}, {Kind: "send", Data: payload('c', 0, -1)}, {Kind: "send", Data: payload('c', 1, -1)}},
			{{Kind: "recv"}},
			{{Kind: "setsend", D: time.Hour}, {Kind: "setrecv", D: time.Hour}, {Kind: "sleep", D: at}, {Kind: "setrecv", D: 2 * time.Hour}},
		}
		sc.ServerScripts = [][]Op{
			{{Kind: "recv"}, {Kind: "recv"}},
			{{Kind: "sleep", D: 2 * at}, {Kind: "send", Data: payload('s', 0, -1)}},
			{{Kind: "sleep", D: 2*at + time.Second}, {Kind: "close"}},
		}
		sc.Goal = func(w *World) bool { return w.appsFinished() || w.s.Now() >= 3*at+5*time.Second }
		sc.Monitors = append(sc.Monitors, monPrefix, monWindow)
		sc.Owns = map[string]bool{"panic": true, "leak": true}
		sc.Final = append(sc.Final, finalDeadlock)
		sc.Cfg.Horizon = 40 * time.Second
		sc.Cfg.DrainTime = 10 * time.Second
		return sc
	}
}

func init() {
	// closefull: the peer sends more messages than the local application
	// ever reads, so the receive goroutine ends up blocked handing a message
	// to a full recvDataChan; Close injected at any point of that.
	builders["closefull"] = func(name string, p params) *Scenario {
		sc := &Scenario{}
		common(sc, p)
		sc.Faults = FaultCfg{}
		n := int(sc.N)
		sc.ClientScripts = [][]Op{sends('c', n+2, -1)}
		sc.ServerScripts = [][]Op{{{Kind: "sleep", D: 30 * time.Second}}}
		sc.ExtraActions = closeActions(p.int("closers", 1))
		until := p.dur("until", 5*time.Second)
		sc.Goal = func(w *World) bool {
			if w.closersUsed > 0 {
				last, _ := w.extra["lastCloser"].(time.Duration)
				return w.s.Now() >= last+8*time.Second
			}
			return w.s.Now() >= until
		}
		sc.Final = append(sc.Final, finalClose)
		sc.Owns = map[string]bool{"panic": true, "leak": true}
		sc.Cfg.Horizon = 60 * time.Second
		return sc
	}
}

func init() {
	// burst2: two bursts separated by an idle gap, with keepalive pings
	// (which consume sequence numbers) going out during the gap; the ping
	// interval is below the resend timeout, so a ping can overtake the
	// retransmission of a lost DATA packet.
	builders["burst2"] = func(name string, p params) *Scenario {
		sc := &Scenario{}
		common(sc, p)
		sc.PingC, sc.PongC = p.dur("pingc", 500*time.Millisecond), 3*time.Second
		sc.PingS, sc.PongS = p.dur("pings", 700*time.Millisecond), 3*time.Second
		k := p.int("k", 2)
		ops := sends('c', k, -1)
		ops = append(ops, Op{Kind: "sleep", D: p.dur("gap", 3*time.Second)})
		for i := 0; i < k; i++ {
			ops = append(ops, Op{Kind: "send", Data: payload('d', i, -1)})
		}
		sc.ClientScripts = [][]Op{ops}
		sc.ServerScripts = [][]Op{recvs(2 * k)}
		sc.Monitors = append(sc.Monitors, monPrefix)
		sc.Final = append(sc.Final, finalAllDelivered)
		sc.Cfg.Horizon = 90 * time.Second
		sc.Cfg.DrainTime = 10 * time.Second
		return sc
	}
}
