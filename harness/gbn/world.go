// Package gbnh closes the real GBN connection code (instrumented copy) with a
// small driver: two endpoints, an adversarial in-order transport, application
// scripts and monitors, all executed under the controlled scheduler.
package gbnh

import (
	"bytes"
	"context"
	"errors"
	"fmt"
	"strings"
	"sync"
	"sync/atomic"
	"time"

	"github.com/lightninglabs/lightning-node-connect/gbn"
	"github.com/lightninglabs/lightning-node-connect/gbn/vrt"
)

// ---------------------------------------------------------------- transport

// Pkt is a packet in flight.
type Pkt struct {
	ID     int // global send order
	Data   []byte
	Copies int // how many times it has been duplicated
	At     time.Duration
}

// WireRec is one entry of the wire log of a direction.
type WireRec struct {
	ID   int
	Data []byte
	At   time.Duration
	Fate string // "", "delivered", "dropped", "dup"
	// Order is a global event counter shared by sends and deliveries.
	Order int
}

// Link is one direction of the transport: per-direction FIFO that the
// environment may drop from, duplicate in place and delay.
type Link struct {
	name string
	w    *World

	mu       sync.Mutex
	inflight []*Pkt
	inbox    chan []byte
	wire     []WireRec
	// deliveredLog lists what reached the receiver's inbox, in order.
	deliveredLog []WireRec

	sent, delivered, dropped, duped int
	blackhole                       bool
	hold                            bool  // deliveries suspended (packets stay in flight)
	sendErr                         error // when set, send fails (transport broken)
	failNext                        bool  // the next send call fails once (a transient write error)
	stall                           bool  // send blocks until its context is done (a transport that accepts nothing)
	// calls into the transport that are in progress right now (a thread
	// parked at the entry point counts: it is inside the user's function)
	activeSend, activeRecv int
	sender, receiver       *Endpoint
}

func newLink(w *World, name string) *Link {
	return &Link{name: name, w: w, inbox: make(chan []byte, 1<<14)}
}

// enter / leave bracket one call of an endpoint into its transport function.
func (l *Link) enter(send bool) {
	l.mu.Lock()
	e := l.receiver
	if send {
		l.activeSend++
		e = l.sender
	} else {
		l.activeRecv++
	}
	l.mu.Unlock()
	if e != nil && !l.w.free && !l.w.draining {
		e.mu.Lock()
		if e.closeReturned && e.lateTransport == "" {
			what := "recv"
			if send {
				what = "send"
			}
			e.lateTransport = fmt.Sprintf("%s called at %v", what, l.w.now())
		}
		e.mu.Unlock()
	}
}

func (l *Link) leave(send bool) {
	l.mu.Lock()
	if send {
		l.activeSend--
	} else {
		l.activeRecv--
	}
	l.mu.Unlock()
}

func (l *Link) send(ctx context.Context, b []byte) error {
	l.enter(true)
	defer l.leave(true)
	vrt.Point("net.send:" + l.name)
	if err := ctx.Err(); err != nil {
		return err
	}
	l.mu.Lock()
	st := l.stall
	l.mu.Unlock()
	if st {
		// The transport takes nothing: the call returns only when its
		// context ends (what a blocked stream write does).
		<-ctx.Done()
		vrt.Woke("net.send:" + l.name)
		return ctx.Err()
	}
	l.w.sendMu.Lock()
	defer l.w.sendMu.Unlock()
	l.mu.Lock()
	defer l.mu.Unlock()
	if l.sendErr != nil {
		return l.sendErr
	}
	if l.failNext {
		l.failNext = false
		return errWriteFailed
	}
	l.w.pktSeq++
	p := &Pkt{ID: l.w.pktSeq, Data: append([]byte{}, b...), At: l.w.s.Now()}
	l.sent++
	l.w.order++
	l.wire = append(l.wire, WireRec{ID: p.ID, Data: p.Data, At: p.At, Order: l.w.order})
	if l.blackhole {
		l.dropped++
		return nil
	}
	if l.w.free {
		// free-running pass: the link delivers by itself
		if k := l.w.sc.FreeLoss; k > 0 && l.sent%k == 0 {
			l.dropped++
			return nil
		}
		l.delivered++
		l.inbox <- p.Data
		return nil
	}
	l.inflight = append(l.inflight, p)
	if lat := l.w.sc.Latency; lat > 0 {
		// wake the scheduler when the packet becomes deliverable
		s := l.w.s
		time.AfterFunc(lat, s.Poke)
	}
	return nil
}

func (l *Link) recv(ctx context.Context) ([]byte, error) {
	l.enter(false)
	defer l.leave(false)
	vrt.Point("net.recv:" + l.name)
	// Data first, so that the outcome never depends on the runtime's
	// random select choice.
	select {
	case b := <-l.inbox:
		return b, nil
	default:
	}
	select {
	case b := <-l.inbox:
		vrt.Woke("net.recv:" + l.name)
		return b, nil
	case <-ctx.Done():
		vrt.Woke("net.recv:" + l.name)
		return nil, ctx.Err()
	}
}

func (l *Link) head() *Pkt {
	l.mu.Lock()
	defer l.mu.Unlock()
	if len(l.inflight) == 0 {
		return nil
	}
	return l.inflight[0]
}

func (l *Link) pop() *Pkt {
	l.mu.Lock()
	defer l.mu.Unlock()
	p := l.inflight[0]
	l.inflight = l.inflight[1:]
	return p
}

func (l *Link) deliver() {
	p := l.pop()
	l.delivered++
	l.w.order++
	l.mu.Lock()
	l.deliveredLog = append(l.deliveredLog, WireRec{ID: p.ID, Data: p.Data, At: l.w.s.Now(), Order: l.w.order})
	l.mu.Unlock()
	l.inbox <- p.Data
	l.w.lastDelivery = l.w.s.Now()
}

func (l *Link) drop() {
	l.pop()
	l.dropped++
}

func (l *Link) dup() {
	p := l.head()
	p.Copies++
	l.duped++
	l.w.order++
	l.mu.Lock()
	l.deliveredLog = append(l.deliveredLog, WireRec{ID: p.ID, Data: p.Data, At: l.w.s.Now(), Order: l.w.order})
	l.mu.Unlock()
	l.inbox <- append([]byte{}, p.Data...)
}

func (l *Link) inject(b []byte) {
	// The receiver cannot tell an injected packet from a genuine one, so
	// it is part of what was delivered.
	l.w.order++
	l.mu.Lock()
	l.deliveredLog = append(l.deliveredLog, WireRec{ID: -1, Data: append([]byte{}, b...), At: l.w.now(), Order: l.w.order})
	l.mu.Unlock()
	l.inbox <- append([]byte{}, b...)
}

// ---------------------------------------------------------------- endpoints

// Op is one step of an application script.
type Op struct {
	Kind string // send recv close setsend setrecv sleep
	Data []byte
	D    time.Duration
}

// CallRec records one application call.
type CallRec struct {
	Thread   string
	Kind     string
	Data     []byte // payload sent / received
	Start    time.Duration
	End      time.Duration
	Returned bool
	Err      string
	// StartSeq / EndSeq order calls within one virtual instant.
	StartSeq, EndSeq int64
	// Busy (close calls): what the connection was still doing in its
	// transport when the call returned.
	Busy string
}

// Endpoint is one side of the connection.
type Endpoint struct {
	Name string
	w    *World

	Conn     *gbn.GoBackNConn
	CtorErr  error
	CtorDone bool
	CtorAt   time.Duration

	ctx    context.Context
	cancel context.CancelFunc

	mu    sync.Mutex
	Calls []*CallRec

	out, in *Link

	// closedAt is the virtual time at which the endpoint's quit channel
	// was first seen closed (-1 = still open).
	closedAt time.Duration
	// closeReturned: some Close call of the application has returned;
	// lateTransport: a call into the transport that began after that.
	closeReturned bool
	lateTransport string
	// closedBeforeDrain: the endpoint was seen closed under the scheduler
	closedBeforeDrain bool
}

func (e *Endpoint) begin(thread, kind string, data []byte) *CallRec {
	c := &CallRec{Thread: thread, Kind: kind, Data: data, Start: e.w.s.Now(),
		StartSeq: e.w.callSeq.Add(1)}
	e.mu.Lock()
	e.Calls = append(e.Calls, c)
	e.mu.Unlock()
	return c
}

func (e *Endpoint) finish(c *CallRec, data []byte, err error) {
	e.mu.Lock()
	c.End = e.w.s.Now()
	c.EndSeq = e.w.callSeq.Add(1)
	c.Returned = true
	if data != nil {
		c.Data = data
	}
	if err != nil {
		c.Err = err.Error()
	}
	e.mu.Unlock()
}

// calls returns the records of one kind in call order.
func (e *Endpoint) calls(kind string) []*CallRec {
	e.mu.Lock()
	defer e.mu.Unlock()
	var out []*CallRec
	for _, c := range e.Calls {
		if c.Kind == kind {
			out = append(out, c)
		}
	}
	return out
}

// runScript executes ops on the endpoint's connection.
func (e *Endpoint) runScript(thread string, ops []Op) {
	for _, op := range ops {
		switch op.Kind {
		case "send":
			c := e.begin(thread, "send", op.Data)
			err := e.Conn.Send(op.Data)
			e.finish(c, nil, err)
		case "recv":
			c := e.begin(thread, "recv", nil)
			b, err := e.Conn.Recv()
			if b == nil && err == nil {
				b = []byte{}
			}
			e.finish(c, b, err)
		case "recvretry":
			// Retry a Recv that timed out, like an application with a
			// read deadline would.
			for tries := 0; tries < 50; tries++ {
				c := e.begin(thread, "recv", nil)
				b, err := e.Conn.Recv()
				if b == nil && err == nil {
					b = []byte{}
				}
				e.finish(c, b, err)
				if err == nil || !strings.Contains(err.Error(), "timeout") {
					break
				}
			}
		case "sendretry":
			for tries := 0; tries < 50; tries++ {
				c := e.begin(thread, "send", op.Data)
				err := e.Conn.Send(op.Data)
				e.finish(c, nil, err)
				if err == nil || !strings.Contains(err.Error(), "timeout") {
					break
				}
				c.Kind = "send-timeout"
			}
		case "close":
			c := e.begin(thread, "close", nil)
			err := e.Conn.Close()
			e.finish(c, nil, err)
			if !e.w.free && !e.w.draining {
				// When Close has returned the connection has let go
				// of the transport: no call into it is in progress.
				e.out.mu.Lock()
				as := e.out.activeSend
				e.out.mu.Unlock()
				e.in.mu.Lock()
				ar := e.in.activeRecv
				e.in.mu.Unlock()
				e.mu.Lock()
				e.closeReturned = true
				if as+ar > 0 && c.Busy == "" {
					c.Busy = fmt.Sprintf("%d send and %d recv call(s) of the connection into its transport still in progress", as, ar)
				}
				e.mu.Unlock()
			}
		case "setsend":
			e.Conn.SetSendTimeout(op.D)
		case "setrecv":
			e.Conn.SetRecvTimeout(op.D)
		case "sleep":
			time.Sleep(op.D)
			vrt.Point("app.wake")
		default:
			panic("unknown op " + op.Kind)
		}
	}
}

// ---------------------------------------------------------------- world

// World is the closed system of one execution. It implements vrt.Env.
type World struct {
	s  *vrt.Sched
	sc *Scenario

	C, S    *Endpoint
	c2s     *Link
	s2c     *Link
	pktSeq  int
	sendMu  sync.Mutex // serialises the global packet numbering across both links
	order   int
	callSeq atomic.Int64

	lastDelivery time.Duration
	goalAt       time.Duration
	goalReached  bool
	faultsUsed   int
	lastFaultAt  time.Duration

	appThreads  int32
	appDone     int32
	appMu       sync.Mutex
	states      []uint64
	findings    []finding
	findKeys    map[string]bool
	reached     map[string]bool
	foreign     []string
	canonical   bool // the schedule has no deviation at all
	free        bool // free-running (race pass): links deliver by themselves
	draining    bool // the harness is shutting the run down
	endAt       time.Duration
	endState    [2]string // client, server state when the run proper ended
	endSnap     [2]gbn.VerifSnap
	closersUsed int
	injectUsed  int
	blackholed  bool
	sendErrUsed bool
	timerLeaks  []string
	tm          map[string]*tmLive
	blackholeAt time.Duration
	extra       map[string]any
}

type finding struct {
	Key, What string
}

func (w *World) fail(key, format string, a ...any) {
	if w.findKeys[key] {
		return
	}
	w.findKeys[key] = true
	w.findings = append(w.findings, finding{key, fmt.Sprintf(format, a...)})
}

// spawnApp registers an application thread (counted towards "all scripts
// finished") and starts it.
func (w *World) spawnApp(name string, f func()) {
	w.appStart()
	w.s.Spawn(name, func() {
		defer w.appEnd()
		f()
	})
}

func (w *World) appStart() { w.appMu.Lock(); w.appThreads++; w.appMu.Unlock() }
func (w *World) appEnd()   { w.appMu.Lock(); w.appDone++; w.appMu.Unlock() }
func (w *World) appsFinished() bool {
	w.appMu.Lock()
	defer w.appMu.Unlock()
	return w.appThreads > 0 && w.appDone == w.appThreads
}

func newWorld(s *vrt.Sched, sc *Scenario) *World {
	w := &World{s: s, sc: sc, findKeys: map[string]bool{}, reached: map[string]bool{}, extra: map[string]any{}}
	w.free = s.IsFree()
	w.c2s = newLink(w, "c2s")
	w.s2c = newLink(w, "s2c")
	w.C = &Endpoint{Name: "client", w: w, out: w.c2s, in: w.s2c, closedAt: -1}
	w.S = &Endpoint{Name: "server", w: w, out: w.s2c, in: w.c2s, closedAt: -1}
	w.c2s.sender, w.c2s.receiver = w.C, w.S
	w.s2c.sender, w.s2c.receiver = w.S, w.C
	w.C.ctx, w.C.cancel = context.WithCancel(context.Background())
	w.S.ctx, w.S.cancel = context.WithCancel(context.Background())

	if sc.Custom != nil {
		sc.Custom(w)
		return w
	}
	for _, b := range sc.StaleC2S {
		w.c2s.inject(b)
	}
	for _, b := range sc.StaleS2C {
		w.s2c.inject(b)
	}

	startClient := func() {
		if sc.RawClient != nil {
			w.spawnApp("raw-client", func() { sc.RawClient(w) })
			return
		}
		w.spawnApp("client-main", func() {
			conn, err := gbn.NewClientConn(w.C.ctx, sc.N, w.c2s.send, w.s2c.recv, sc.clientOpts()...)
			w.C.Conn, w.C.CtorErr, w.C.CtorDone, w.C.CtorAt = conn, err, true, s.Now()
			if err != nil {
				return
			}
			w.spawnScripts(w.C, sc.ClientScripts)
		})
	}
	startServer := func() {
		w.spawnApp("server-main", func() {
			conn, err := gbn.NewServerConn(w.S.ctx, w.s2c.send, w.c2s.recv, sc.serverOpts()...)
			w.S.Conn, w.S.CtorErr, w.S.CtorDone, w.S.CtorAt = conn, err, true, s.Now()
			if err != nil {
				return
			}
			w.spawnScripts(w.S, sc.ServerScripts)
		})
	}
	if sc.ServerFirst {
		startServer()
		startClient()
	} else {
		startClient()
		startServer()
	}
	return w
}

func (w *World) spawnScripts(e *Endpoint, scripts [][]Op) {
	for i, ops := range scripts {
		name := fmt.Sprintf("%s-app%d", e.Name, i)
		ops := ops
		w.appStart()
		vrt.Go(name, func() {
			defer w.appEnd()
			e.runScript(name, ops)
		})
	}
}

func (w *World) now() time.Duration {
	if w.s == nil {
		return 0
	}
	return w.s.Now()
}

func (w *World) handshakeDone() bool {
	if w.sc.RawClient != nil {
		return w.S.CtorDone
	}
	return w.C.CtorDone && w.S.CtorDone
}

// Actions implements vrt.Env.
func (w *World) Actions() []vrt.Action {
	var acts []vrt.Action
	sc := w.sc
	if sc.PreActions != nil {
		sc.PreActions(w)
	}
	hc, hs := w.c2s.head(), w.s2c.head()
	if sc.Latency > 0 {
		if hc != nil && w.s.Now() < hc.At+sc.Latency {
			hc = nil
		}
		if hs != nil && w.s.Now() < hs.At+sc.Latency {
			hs = nil
		}
	}
	if w.c2s.hold {
		hc = nil
	}
	if w.s2c.hold {
		hs = nil
	}
	type dl struct {
		l *Link
		p *Pkt
	}
	var order []dl
	switch {
	case hc != nil && hs != nil:
		if hc.ID < hs.ID {
			order = []dl{{w.c2s, hc}, {w.s2c, hs}}
		} else {
			order = []dl{{w.s2c, hs}, {w.c2s, hc}}
		}
	case hc != nil:
		order = []dl{{w.c2s, hc}}
	case hs != nil:
		order = []dl{{w.s2c, hs}}
	}
	for _, d := range order {
		l := d.l
		acts = append(acts, vrt.Action{
			Label: "deliver:" + l.name + ":" + pktName(d.p.Data), Kind: vrt.KDeliver, Default: true,
			Do: l.deliver,
		})
	}
	faultsOK := sc.Faults.Drop || sc.Faults.Dup
	if faultsOK && sc.Faults.AfterHandshake && !w.handshakeDone() {
		faultsOK = false
	}
	if faultsOK && sc.Faults.Max > 0 && w.faultsUsed >= sc.Faults.Max {
		faultsOK = false
	}
	if faultsOK {
		for _, d := range order {
			l, p := d.l, d.p
			if sc.Faults.Only != "" && sc.Faults.Only != l.name {
				continue
			}
			if sc.Faults.Drop {
				acts = append(acts, vrt.Action{
					Label: "drop:" + l.name + ":" + pktName(p.Data), Kind: vrt.KFault, OnlyIdle: true,
					Do: func() { w.faultsUsed++; w.lastFaultAt = w.s.Now(); l.drop() },
				})
			}
			if sc.Faults.Dup && p.Copies < 1 {
				acts = append(acts, vrt.Action{
					Label: "dup:" + l.name + ":" + pktName(p.Data), Kind: vrt.KFault, OnlyIdle: true,
					Do: func() { w.faultsUsed++; w.lastFaultAt = w.s.Now(); l.dup() },
				})
			}
		}
	}
	// a transient write error: the next call of one direction's send
	// function fails (nothing is transmitted), once per execution
	if sc.Faults.SendErr && !w.sendErrUsed && !w.goalReached && !(sc.Faults.AfterHandshake && !w.handshakeDone()) {
		for _, l := range []*Link{w.c2s, w.s2c} {
			if sc.Faults.Only != "" && sc.Faults.Only != l.name {
				continue
			}
			acts = append(acts, vrt.Action{
				Label: "senderr:" + l.name, Kind: vrt.KFault, OnlyIdle: true,
				Do: func() {
					w.faultsUsed++
					w.sendErrUsed = true
					w.lastFaultAt = w.s.Now()
					l.mu.Lock()
					l.failNext = true
					l.mu.Unlock()
				},
			})
		}
	}
	if sc.ExtraActions != nil {
		acts = append(acts, sc.ExtraActions(w)...)
	}
	return acts
}

// errWriteFailed is what a send function returns for a transient write error.
var errWriteFailed = errors.New("transport: write failed")

func pktName(b []byte) string {
	m, err := safeDeserialize(b)
	if err != nil {
		return fmt.Sprintf("raw%x", b)
	}
	switch x := m.(type) {
	case *gbn.PacketData:
		if x.IsPing {
			return fmt.Sprintf("PING%d", x.Seq)
		}
		return fmt.Sprintf("DATA%d", x.Seq)
	case *gbn.PacketACK:
		return fmt.Sprintf("ACK%d", x.Seq)
	case *gbn.PacketNACK:
		return fmt.Sprintf("NACK%d", x.Seq)
	case *gbn.PacketSYN:
		return fmt.Sprintf("SYN%d", x.N)
	case *gbn.PacketFIN:
		return "FIN"
	case *gbn.PacketSYNACK:
		return "SYNACK"
	}
	return "?"
}

func safeDeserialize(b []byte) (m gbn.Message, err error) {
	defer func() {
		if r := recover(); r != nil {
			err = fmt.Errorf("panic: %v", r)
		}
	}()
	return gbn.Deserialize(b)
}

// Quiescent implements vrt.Env: monitors, fingerprint, goal.
func (w *World) Quiescent(s *vrt.Sched) bool {
	if w.free {
		// race pass: the harness must not read connection state without
		// the connection's own locks (that would be a race of ours)
		if !w.goalReached && w.sc.Goal(w) {
			w.goalReached = true
			w.goalAt = s.Now()
		}
		return w.goalReached && s.Now() >= w.goalAt+w.sc.IdleAfter
	}
	w.states = append(w.states, w.fingerprint())
	monClosed(w)
	for _, m := range w.sc.Monitors {
		m(w)
	}
	if len(w.findings) > 0 {
		return true
	}
	if !w.goalReached && w.sc.Goal(w) {
		w.goalReached = true
		w.goalAt = s.Now()
	}
	if w.goalReached {
		// the connection is left alone for IdleAfter after the goal and
		// after the last transport fault (faults stay on offer while the
		// run idles)
		since := w.goalAt
		if w.lastFaultAt > since {
			since = w.lastFaultAt
		}
		return s.Now() >= since+w.sc.IdleAfter
	}
	return false
}

// DelayAllowed says whether the environment may delay a deliverable packet
// past the next timer at this moment (a transport fault like drop and dup).
func (w *World) DelayAllowed() bool {
	sc := w.sc
	if !(sc.Faults.Drop || sc.Faults.Dup || sc.Faults.Delay) {
		return false
	}
	if sc.Faults.AfterHandshake && !w.handshakeDone() {
		return false
	}
	if sc.Faults.Max > 0 && w.faultsUsed >= sc.Faults.Max {
		return false
	}
	return true
}

// OnDelay is called when a delay fault is taken.
func (w *World) OnDelay() {
	w.faultsUsed++
	w.lastFaultAt = w.s.Now()
}

// BeforeDrain records the end state of the run proper, before the harness
// shuts everything down.
func (w *World) BeforeDrain(s *vrt.Sched) {
	monClosed(w)
	w.endAt = s.Now()
	w.endState = [2]string{sideState(w.C), sideState(w.S)}
	for i, e := range []*Endpoint{w.C, w.S} {
		if e.Conn != nil {
			w.endSnap[i] = e.Conn.VerifSnapshot()
		}
	}
}

// Drain implements the optional drain hook: shut both ends down the way an
// application would, from fresh goroutines (Close may block).
func (w *World) Drain(s *vrt.Sched) {
	w.draining = true
	// (the drain runs free: only what was closed under the scheduler is
	// judged by the timer oracle of AfterDrain)
	for _, e := range []*Endpoint{w.C, w.S} {
		e.closedBeforeDrain = e.closedAt >= 0
	}
	if w.sc.NoDrainClose {
		return
	}
	for _, e := range []*Endpoint{w.C, w.S} {
		e := e
		e.cancel()
		if e.Conn != nil {
			vrt.Go("drain-close-"+e.Name, func() { _ = e.Conn.Close() })
		}
	}
}

// AfterDrain runs inside the bubble once the drain time has passed (both ends
// closed long ago): a resend ticker that still ticks was left running by
// Close. A stale tick from before the Stop is discarded first; the wait is
// longer than any resend timeout, boosted ones included.
func (w *World) AfterDrain(s *vrt.Sched) {
	if w.sc.NoDrainClose || !w.sc.Owns["leak"] {
		return
	}
	type tc struct {
		name string
		c    <-chan time.Time
	}
	var cs []tc
	for _, e := range []*Endpoint{w.C, w.S} {
		if e.Conn == nil || !e.closedBeforeDrain {
			continue
		}
		if c := e.Conn.VerifResendTickerC(); c != nil {
			select {
			case <-c:
			default:
			}
			cs = append(cs, tc{e.Name, c})
		}
	}
	if len(cs) == 0 {
		return
	}
	time.Sleep(40 * time.Second)
	for _, x := range cs {
		select {
		case <-x.c:
			w.timerLeaks = append(w.timerLeaks, "resendTicker/"+x.name)
		default:
		}
	}
}

func (w *World) fingerprint() uint64 {
	var b bytes.Buffer
	for _, e := range []*Endpoint{w.C, w.S} {
		if e.Conn != nil {
			fmt.Fprintf(&b, "%+v|", e.Conn.VerifSnapshot())
		} else {
			fmt.Fprintf(&b, "nil:%v|", e.CtorDone)
		}
		fmt.Fprintf(&b, "calls=%d|", len(e.Calls))
	}
	for _, l := range []*Link{w.c2s, w.s2c} {
		for _, p := range l.inflight {
			fmt.Fprintf(&b, "%x,", p.Data)
		}
		fmt.Fprintf(&b, "|in=%d|", len(l.inbox))
	}
	for _, t := range w.s.Threads() {
		fmt.Fprintf(&b, "%s@%s;", t.State(), t.Site())
	}
	h := uint64(1469598103934665603)
	for _, c := range b.Bytes() {
		h ^= uint64(c)
		h *= 1099511628211
	}
	return h
}
