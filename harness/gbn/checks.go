package gbnh

import (
	"strings"

	"github.com/lightninglabs/lightning-node-connect/gbn/vrt"

	"verif/engine/explore"
)

// filters are the named site filters a job may use to restrict where
// deviations are placed.
var filters = map[string]explore.Filter{
	// nolocks: no deviation at lock/atomic points.
	"nolocks": func(a vrt.Alt) bool {
		return !(strings.HasSuffix(a.Site, ":Lock") || strings.HasSuffix(a.Site, ":RLock") ||
			strings.Contains(a.Site, ":atomic.") || strings.HasSuffix(a.Site, ":Once.Do"))
	},
}

// jobsFor lists the explorations of a property at a tier and the wall-clock
// budget (seconds) after which expansion stops (exit 0, exhaustive:false).
func jobsFor(prop string, thorough bool) ([]Job, int) {
	switch prop {
	case "C01":
		if !thorough {
			return []Job{
				{Scenario: "uni/N=1/k=5", Budgets: []explore.Budget{B(1, 1), B(0, 2)}, Split: 1},
				{Scenario: "uni/N=2/k=7", Budgets: []explore.Budget{B(1, 1), B(0, 2)}, Split: 1},
				{Scenario: "bidi/N=2/k1=3/k2=3", Budgets: []explore.Budget{B(1, 0), B(0, 2)}, Split: 1},
			}, 240
		}
		return []Job{
			{Scenario: "uni/N=1/k=5", Budgets: []explore.Budget{B(2, 1), B(1, 2), B(0, 3)}, Split: 2},
			{Scenario: "uni/N=2/k=7", Budgets: []explore.Budget{B(2, 1), B(1, 2), B(0, 3)}, Split: 2},
			{Scenario: "uni/N=3/k=5", Budgets: []explore.Budget{B(1, 1), B(0, 3)}, Split: 2},
			{Scenario: "bidi/N=2/k1=3/k2=3", Budgets: []explore.Budget{B(1, 1), B(0, 3)}, Split: 2},
		}, 1500
	}
	return nil, 0
}
