package gbnh

import (
	"fmt"
	"strings"

	"github.com/lightninglabs/lightning-node-connect/gbn/vrt"

	"verif/engine/explore"
)

// filters are the named site filters a job may use to restrict where
// deviations are placed.
var filters = map[string]explore.Filter{
	// keepalive: scheduling deviations only at the keepalive machinery
	// (ticker.go, the send loop's selects, the receive loop's ticker
	// resets); faults everywhere.
	"keepalive": func(a vrt.Alt) bool {
		if a.Kind == vrt.KFault || a.Kind == vrt.KDeliver || a.Kind == vrt.KEnvSched {
			return true
		}
		return strings.Contains(a.Site, "ticker.go") || strings.Contains(a.Site, "gbn_conn.go:4") ||
			strings.Contains(a.Site, "gbn_conn.go:5")
	},
	// tickeronly: scheduling deviations only inside ticker.go.
	"tickeronly": func(a vrt.Alt) bool {
		if a.Kind == vrt.KFault || a.Kind == vrt.KDeliver || a.Kind == vrt.KEnvSched {
			return true
		}
		return strings.Contains(a.Site, "ticker.go")
	},
	// nolocks: no deviation at lock/atomic points.
	"nolocks": func(a vrt.Alt) bool {
		return !(strings.HasSuffix(a.Site, ":Lock") || strings.HasSuffix(a.Site, ":RLock") ||
			strings.Contains(a.Site, ":atomic.") || strings.HasSuffix(a.Site, ":Once.Do"))
	},
}

type jobSet struct {
	quick, thorough   []Job
	quickS, thoroughS int // wall-clock budgets (seconds)
}

func bs(b ...explore.Budget) []explore.Budget { return b }

// jobTable lists the explorations of every property at both tiers.
var jobTable = map[string]jobSet{
	"C01": {
		quick: []Job{
			{Scenario: "uni/N=1/k=5", Budgets: bs(B(1, 1), B(0, 2)), Split: 1},
			{Scenario: "bidi/N=2/k1=3/k2=3", Budgets: bs(B(1, 0), B(0, 2)), Split: 1},
			{Scenario: "burst2/N=2/k=2", Budgets: bs(B(0, 2)), Split: 1},
			// chunked messages whose Recv calls time out between chunks and
			// are retried (the contents must still come out unaltered)
			{Scenario: "chunkto/c=2/lens=5,3/rt=500ms", Budgets: bs(B(0, 2)), Split: 1},
			// faults during the handshake and an application that starts
			// sending later (a restarted server handshake is completed by
			// the client's first DATA packet)
			{Scenario: "uni/N=2/k=3/hsfaults/pre=3s", Budgets: bs(B(0, 2)), Split: 1},
			// a receiving application that starts late: more than a window
			// of messages arrives before the first Recv
			{Scenario: "uni/N=2/k=6/rpre=4s", Budgets: bs(B(0, 1)), Split: 1},
			// a transient write error: one call of a send function fails
			// (whatever packet it carries - DATA, ACK, a retransmission);
			// the connection may fail visibly, the prefix property stays
			{Scenario: "uni/N=2/k=4/senderr", Budgets: bs(B(1, 1), B(0, 2)), Split: 1},
			{Scenario: "bidi/N=2/k1=2/k2=2/senderr", Budgets: bs(B(0, 2)), Split: 1},
			{Scenario: "uni/N=2/k=7", Budgets: bs(B(1, 1), B(0, 2)), Split: 1},
		},
		thorough: []Job{
			{Scenario: "uni/N=2/k=4/senderr", Budgets: bs(B(2, 1), B(1, 2), B(0, 3)), Split: 2},
			{Scenario: "bidi/N=2/k1=2/k2=2/senderr", Budgets: bs(B(1, 1), B(0, 3)), Split: 2},
			{Scenario: "chunkto/c=2/lens=5,3/rt=500ms", Budgets: bs(B(1, 1), B(0, 3)), Split: 2},
			{Scenario: "uni/N=1/k=5", Budgets: bs(B(2, 1), B(1, 2), B(0, 3)), Split: 2},
			{Scenario: "uni/N=2/k=7", Budgets: bs(B(2, 1), B(1, 2), B(0, 3)), Split: 2},
			{Scenario: "uni/N=3/k=5", Budgets: bs(B(1, 1), B(0, 3)), Split: 2},
			{Scenario: "bidi/N=2/k1=3/k2=3", Budgets: bs(B(1, 1), B(0, 3)), Split: 2},
			{Scenario: "burst2/N=2/k=2", Budgets: bs(B(1, 1), B(0, 3)), Split: 2},
			{Scenario: "burst2/N=1/k=2", Budgets: bs(B(0, 2)), Split: 1},
			// a window above 128 (uint8 arithmetic on sequence numbers and in
			// the syncer) with a wrap of the sequence space, one fault at
			// every point
			{Scenario: "uni/N=150/k=200", Budgets: bs(B(0, 1)), Split: 1},
		},
		quickS: 240, thoroughS: 1800,
	},
	"C12": {
		quick: []Job{
			{Scenario: "closefull/N=1/closers=1", Budgets: bs(B(1, 0)), Split: 1},
			// boosted (adaptive) resend timeouts: a Close that sat out a resend
			// interval would now take several seconds
			{Scenario: "closestall/N=1/adaptive/until=14s", Budgets: bs(B(1, 0)), Split: 1},
			// a transport whose send call blocks until its context ends:
			// Close may spend the FIN timeout on the FIN, nothing more
			{Scenario: "closeblock/N=1/closers=1", Budgets: bs(B(1, 0)), Split: 1},
			// a connection that closes itself (keepalive timeout: nothing
			// arrives from the peer any more) while its own sending
			// direction still works tells the peer by a FIN like any Close
			{Scenario: "kadead/N=2/kaside=c/k=1/onedir=s2c", Budgets: bs(B(0, 1)), Split: 1},
			{Scenario: "kadead/N=2/kaside=s/k=3/onedir=c2s", Budgets: bs(B(0, 1)), Split: 1},
			{Scenario: "closestall/N=1/closers=2", Budgets: bs(B(2, 0)), Split: 1},
			{Scenario: "close/N=2/k=2/closers=2", Budgets: bs(B(2, 0)), Split: 1},
		},
		thorough: []Job{
			{Scenario: "kadead/N=2/kaside=c/k=1/onedir=s2c", Budgets: bs(B(1, 1)), Split: 2},
			{Scenario: "kadead/N=2/kaside=s/k=3/onedir=c2s", Budgets: bs(B(1, 1)), Filter: "keepalive", Split: 2},
			{Scenario: "closestall/N=1/adaptive/until=14s", Budgets: bs(B(2, 0)), Split: 2},
			{Scenario: "closeblock/N=1/closers=2", Budgets: bs(B(2, 0)), Split: 2},
			{Scenario: "closeblock/N=2/side=c", Budgets: bs(B(2, 0)), Split: 2},
			{Scenario: "close/N=2/k=2/closers=2", Budgets: bs(B(2, 0)), Split: 2},
			{Scenario: "closestall/N=1/closers=2", Budgets: bs(B(2, 0)), Split: 2},
			{Scenario: "closestall/N=2", Budgets: bs(B(2, 0)), Split: 2},
			{Scenario: "closefull/N=2/closers=2", Budgets: bs(B(2, 0)), Split: 2},
		},
		quickS: 240, thoroughS: 1500,
	},
}

// chunkProduct is the exhaustive canonical-schedule product for C14: every
// chunk size x every sequence of up to maxMsgs messages with lengths 0..maxLen.
func chunkProduct(chunks []int, maxLen, maxMsgs int) []string {
	var out []string
	var rec func(prefix []string)
	for _, c := range chunks {
		rec = func(prefix []string) {
			if len(prefix) > 0 {
				out = append(out, fmt.Sprintf("chunk/c=%d/N=3/lens=%s", c, strings.Join(prefix, ",")))
			}
			if len(prefix) == maxMsgs {
				return
			}
			for l := 0; l <= maxLen; l++ {
				rec(append(append([]string{}, prefix...), fmt.Sprint(l)))
			}
		}
		rec(nil)
	}
	return out
}

func init() {
	jobTable["C14"] = jobSet{
		quick: []Job{
			{Scenario: "chunk-product(c=0..4,len=0..8,msgs<=2)", Scenarios: chunkProduct([]int{0, 1, 2, 3, 4}, 8, 2), Budgets: bs(B(0, 0))},
			{Scenario: "chunk/c=2/lens=0,1,2,3,5", Budgets: bs(B(1, 1), B(0, 2)), Split: 1},
			{Scenario: "chunk/c=1000/lens=4000", Budgets: bs(B(0, 1)), Split: 1},
			// a receiving application that starts late: more chunks than the
			// window holds arrive before the first Recv
			{Scenario: "chunk/c=2/lens=3,2,4,1,5,2/rpre=4s", Budgets: bs(B(0, 1)), Split: 1},
			{Scenario: "chunkto/c=2/lens=5,3/rt=500ms", Budgets: bs(B(1, 1), B(0, 2)), Split: 1},
			{Scenario: "chunkto/c=2/N=1/lens=5,3/st=700ms", Budgets: bs(B(1, 1), B(0, 2)), Split: 1},
		},
		thorough: []Job{
			{Scenario: "chunk-product(c=0..4,len=0..12,msgs<=3)", Scenarios: chunkProduct([]int{0, 1, 2, 3, 4}, 12, 3), Budgets: bs(B(0, 0))},
			{Scenario: "chunk/c=2/lens=0,1,2,3,5", Budgets: bs(B(2, 1), B(1, 2), B(0, 3)), Split: 2},
			{Scenario: "chunk/c=3/lens=6,0,7", Budgets: bs(B(1, 1), B(0, 3)), Split: 2},
			{Scenario: "chunk/c=1000/lens=4000,65535", Budgets: bs(B(1, 1), B(0, 2)), Split: 1},
			{Scenario: "chunkto/c=2/lens=5,3/rt=500ms", Budgets: bs(B(2, 1), B(1, 2), B(0, 3)), Split: 2},
			{Scenario: "chunkto/c=2/N=1/lens=5,3/st=700ms", Budgets: bs(B(2, 1), B(1, 2), B(0, 3)), Split: 2},
		},
		quickS: 240, thoroughS: 1200,
	}
	jobTable["C09"] = jobSet{
		quick: []Job{
			{Scenario: "fullwindow/N=1", Budgets: bs(B(1, 1), B(0, 2)), Split: 1},
			{Scenario: "fullwindow/N=2", Budgets: bs(B(1, 1), B(0, 2)), Split: 1},
			{Scenario: "fullwindow/N=3", Budgets: bs(B(1, 0), B(0, 1)), Split: 1},
			{Scenario: "fullwindow/N=20", Budgets: bs(B(0, 0))},
			// plain traffic under drops and duplicates, judged on the window
			// (a NACK for the base with a full window must not let more out)
			{Scenario: "uni/N=2/k=7/win", Budgets: bs(B(0, 2)), Split: 1},
			// keepalive pings count against the window like any DATA packet
			{Scenario: "pingwindow/N=2", Budgets: bs(B(1, 0)), Split: 1},
			{Scenario: "pingwindow/N=3", Budgets: bs(B(0, 0))},
			// the sequence space is strictly larger than the window whatever
			// window byte a client proposes
			{Scenario: "synN(all 256 window bytes)", Scenarios: synNBatch(), Budgets: bs(B(0, 0))},
		},
		thorough: []Job{
			{Scenario: "fullwindow/N=1", Budgets: bs(B(2, 1), B(1, 2), B(0, 3)), Split: 2},
			{Scenario: "fullwindow/N=2", Budgets: bs(B(2, 1), B(1, 2), B(0, 3)), Split: 2},
			{Scenario: "fullwindow/N=3", Budgets: bs(B(1, 1), B(0, 2)), Split: 2},
			{Scenario: "fullwindow/N=20", Budgets: bs(B(0, 1)), Split: 1},
			{Scenario: "fullwindow/N=254/extra=1", Budgets: bs(B(0, 0))},
			{Scenario: "uni/N=2/k=7/win", Budgets: bs(B(1, 2), B(0, 3)), Split: 2},
			{Scenario: "uni/N=1/k=5/win", Budgets: bs(B(1, 1), B(0, 3)), Split: 2},
			{Scenario: "pingwindow/N=2", Budgets: bs(B(2, 0)), Split: 2},
			{Scenario: "pingwindow/N=1", Budgets: bs(B(1, 0)), Split: 1},
			{Scenario: "pingwindow/N=20", Budgets: bs(B(0, 0))},
			{Scenario: "uni/N=200/k=260/win", Budgets: bs(B(0, 1)), Split: 1},
		},
		quickS: 240, thoroughS: 1500,
	}
}

func staleBatch(n int, maxLen int) []string {
	toks := []string{"SYN", "SYNX", "SYNACK", "DATA", "ACK", "NACK", "FIN"}
	var seqs []string
	for _, a := range toks {
		seqs = append(seqs, a)
		if maxLen >= 2 {
			for _, b := range toks {
				seqs = append(seqs, a+"."+b)
			}
		}
	}
	var out []string
	for _, dir := range []string{"staleC", "staleS"} {
		for _, q := range seqs {
			out = append(out, fmt.Sprintf("hs/N=%d/%s=%s", n, dir, q))
		}
	}
	return out
}

func synNBatch() []string {
	var out []string
	for v := 0; v < 256; v++ {
		out = append(out, fmt.Sprintf("synN/v=%d", v))
	}
	return out
}

func init() {
	jobTable["C10"] = jobSet{
		quick: []Job{
			{Scenario: "hs/N=2", Budgets: bs(B(1, 1), B(0, 2)), Split: 1},
			{Scenario: "hs/N=2/serverfirst", Budgets: bs(B(1, 0), B(0, 2)), Split: 1},
			{Scenario: "hs/N=1", Budgets: bs(B(0, 1))},
			{Scenario: "hs/N=20", Budgets: bs(B(0, 1))},
			{Scenario: "hs/N=254", Budgets: bs(B(0, 1))},
			{Scenario: "hs-stale(<=2 packets, either direction)", Scenarios: staleBatch(2, 2), Budgets: bs(B(0, 1))},
			{Scenario: "synN(all 256 window bytes)", Scenarios: synNBatch(), Budgets: bs(B(0, 0))},
		},
		thorough: []Job{
			{Scenario: "hs/N=2", Budgets: bs(B(2, 1), B(1, 2), B(0, 3)), Split: 2},
			{Scenario: "hs/N=2/serverfirst", Budgets: bs(B(1, 2), B(0, 3)), Split: 2},
			{Scenario: "hs/N=1", Budgets: bs(B(1, 1), B(0, 3)), Split: 1},
			{Scenario: "hs/N=20", Budgets: bs(B(1, 1), B(0, 2)), Split: 1},
			{Scenario: "hs/N=254", Budgets: bs(B(1, 1), B(0, 2)), Split: 1},
			{Scenario: "hs-stale(<=2 packets, either direction)", Scenarios: staleBatch(2, 2), Budgets: bs(B(1, 1), B(0, 2)), Split: 1},
			{Scenario: "synN(all 256 window bytes)", Scenarios: synNBatch(), Budgets: bs(B(1, 0))},
		},
		quickS: 240, thoroughS: 1500,
	}
	jobTable["C06"] = jobSet{
		quick: []Job{
			{Scenario: "prog/N=2/k=3/adaptive", Budgets: bs(B(0, 2)), Split: 1},
			// the mailbox's timing: handshake timeout above the resend timeout
			{Scenario: "prog/N=2/k=3/H=2s/adaptive", Budgets: bs(B(0, 2)), Split: 1},
			{Scenario: "prog/N=2/k=2/R=200ms", Budgets: bs(B(0, 2)), Split: 1},
			{Scenario: "prog/N=2/k=3/ka=2s,1s", Budgets: bs(B(0, 1)), Split: 1},
			// keepalive pings (which consume sequence numbers) during an idle
			// gap between two bursts, ping interval below the resend timeout
			{Scenario: "burst2/N=2/k=2", Budgets: bs(B(0, 2)), Split: 1},
			// the two ends have different resend timeouts (as diverging
			// adaptive timeouts do): the NACK back-off of one side against
			// the retransmission period of the other
			{Scenario: "prog/N=1/k=2/R=300ms/RS=2s", Budgets: bs(B(0, 2)), Split: 1},
			{Scenario: "prog/N=1/k=2/R=2s/RS=300ms", Budgets: bs(B(0, 2)), Split: 1},
			// the peer streams data of its own faster than the resend timeout
			// while an outbound packet is lost: delivery within 10 s of the loss
			{Scenario: "stream/N=2/k=25", Budgets: bs(B(0, 1)), Split: 1},
			// a receiving application that starts late (back-pressure: more
			// than a window of messages arrives before the first Recv)
			{Scenario: "prog/N=2/k=6/rpre=4s", Budgets: bs(B(0, 1)), Split: 1},
			{Scenario: "prog/N=1/k=3", Budgets: bs(B(1, 1), B(0, 3)), Split: 1},
			{Scenario: "prog/N=2/k=4", Budgets: bs(B(1, 1), B(0, 2)), Split: 1},
			{Scenario: "prog/kind=bidi/N=2/k=2", Budgets: bs(B(1, 1), B(0, 2)), Split: 1},
		},
		thorough: []Job{
			{Scenario: "prog/N=2/k=3/adaptive", Budgets: bs(B(1, 2), B(0, 3)), Split: 2},
			{Scenario: "prog/N=2/k=3/H=2s/adaptive", Budgets: bs(B(1, 1), B(0, 3)), Split: 2},
			{Scenario: "prog/N=2/k=2/R=200ms", Budgets: bs(B(1, 1), B(0, 3)), Split: 2},
			{Scenario: "prog/N=2/k=3/ka=2s,1s", Budgets: bs(B(1, 1), B(0, 2)), Split: 2},
			{Scenario: "prog/N=2/k=3/ka=5s,3s", Budgets: bs(B(0, 2)), Split: 1},
			{Scenario: "prog/N=2/k=3/R=300ms/RS=2s", Budgets: bs(B(0, 3)), Split: 2},
			{Scenario: "stream/N=2", Budgets: bs(B(0, 2)), Split: 2},
			{Scenario: "stream/N=2/adaptive/ka=2s,1s", Budgets: bs(B(0, 1)), Split: 1},
			{Scenario: "prog/kind=bidi/N=1/k=2/R=2s/RS=300ms", Budgets: bs(B(0, 3)), Split: 1},
			{Scenario: "prog/N=2/k=6/rpre=4s", Budgets: bs(B(1, 1), B(0, 2)), Split: 1},
			{Scenario: "prog/N=1/k=3", Budgets: bs(B(1, 3), B(2, 1)), Split: 2},
			{Scenario: "prog/N=2/k=4", Budgets: bs(B(1, 2), B(0, 3)), Split: 2},
			{Scenario: "prog/kind=bidi/N=2/k=2", Budgets: bs(B(1, 2), B(0, 3)), Split: 2},
		},
		quickS: 300, thoroughS: 1800,
	}
	jobTable["C13"] = jobSet{
		quick: []Job{
			{Scenario: "kadead/N=2", Budgets: bs(B(0, 1)), Split: 1},
			{Scenario: "kadead/N=2/kaside=c/k=1", Budgets: bs(B(0, 1)), Split: 1},
			{Scenario: "kadead/N=2/kaside=s/k=1", Budgets: bs(B(0, 1)), Split: 1},
			// only one direction goes silent: the side that hears nothing
			// gives up and tells the peer, whose end closes too
			{Scenario: "kadead/N=2/kaside=c/k=1/onedir=s2c", Budgets: bs(B(0, 1)), Split: 1},
			{Scenario: "kadead/N=2/k=3/onedir=c2s", Budgets: bs(B(0, 1)), Split: 1},
			{Scenario: "kadead/N=1/ka=2s,1s", Budgets: bs(B(0, 1)), Split: 1},
			{Scenario: "kadead/N=1/ka=1s,3s/kaside=s/k=1", Budgets: bs(B(0, 1)), Split: 1},
			{Scenario: "kadead/N=2/ka=1s,3s/kaside=c/k=4", Budgets: bs(B(0, 1)), Split: 1},
			{Scenario: "kadead/N=1/ka=1s,8s/kaside=s/k=1", Budgets: bs(B(0, 1)), Split: 1},
			// a large window and an application that keeps sending at a
			// pace below the ping interval: the window fills only slowly
			// once the peer is gone
			{Scenario: "kadead/N=20/ka=2s,1s/k=25/pace=1500ms/kaside=c", Budgets: bs(B(0, 1)), Split: 1},
			// a live peer on a lossy link: keepalive may close the
			// connection when an answer is lost, but never while packets of
			// the peer keep arriving inside the pong timeout
			{Scenario: "kalive/lossy/ka=2s,1s/R=300ms/idle=20s", Budgets: bs(B(0, 2)), Split: 1},
			// ping below pong and a round trip between the two: the pong
			// timeout, not the ping interval, is what a reply has to beat
			{Scenario: "kalive/ka=1s,3s/lat=700ms/H=4s/R=4s/idle=30s", Budgets: bs(B(1, 0)), Filter: "tickeronly", Split: 1},
			// (the long idle runs last: they are the ones a loaded machine
			// cuts short)
			{Scenario: "kalive/lat=250ms", Budgets: bs(B(1, 0)), Split: 1},
			{Scenario: "kalive/lat=499ms", Budgets: bs(B(1, 0)), Split: 1},
			{Scenario: "kalive/lat=0s", Budgets: bs(B(1, 0)), Split: 1},
			{Scenario: "kadead/N=1/ka=2s,1s/k=2/until=5s", Budgets: bs(B(1, 1)), Filter: "tickeronly", Split: 1},
		},
		thorough: []Job{
			{Scenario: "kadead/N=1/ka=2s,1s/k=2", Budgets: bs(B(1, 1)), Filter: "keepalive", Split: 2},
			{Scenario: "kalive/lat=0s", Budgets: bs(B(2, 0)), Filter: "keepalive", Split: 2},
			{Scenario: "kalive/lat=250ms", Budgets: bs(B(2, 0)), Filter: "keepalive", Split: 2},
			{Scenario: "kalive/lat=499ms", Budgets: bs(B(2, 0)), Filter: "keepalive", Split: 2},
			{Scenario: "kalive/ka=5s,3s/lat=1499ms/idle=100s/H=4s/R=4s", Budgets: bs(B(1, 0)), Split: 1},
			{Scenario: "kalive/lossy/ka=2s,1s/R=300ms/idle=20s", Budgets: bs(B(1, 1), B(0, 3)), Filter: "keepalive", Split: 2},
			{Scenario: "kalive/lossy/ka=5s,3s/R=1s/idle=40s/lat=100ms", Budgets: bs(B(0, 2)), Split: 1},
			{Scenario: "kadead/N=2", Budgets: bs(B(1, 1)), Split: 2},
			{Scenario: "kadead/N=2/ka=7s,3s", Budgets: bs(B(0, 1)), Split: 1},
			{Scenario: "kadead/N=20/ka=2s,1s/k=25/pace=1500ms/kaside=c", Budgets: bs(B(1, 1)), Filter: "tickeronly", Split: 1},
			{Scenario: "kadead/N=20/ka=2s,1s/k=25/pace=700ms", Budgets: bs(B(0, 1)), Split: 1},
			{Scenario: "kadead/N=2/kaside=c/k=1", Budgets: bs(B(1, 1)), Split: 2},
			{Scenario: "kadead/N=2/kaside=s/k=1", Budgets: bs(B(1, 1)), Split: 2},
			{Scenario: "kadead/N=1/ka=2s,1s", Budgets: bs(B(1, 1)), Split: 2},
			{Scenario: "kadead/N=3/ka=2s,1s/k=6", Budgets: bs(B(0, 1)), Split: 1},
		},
		quickS: 300, thoroughS: 1500,
	}
	jobTable["C18"] = jobSet{
		quick: []Job{
			{Scenario: "ticker2", Budgets: bs(B(2, 0)), Split: 1},
			{Scenario: "tm3", Budgets: bs(B(2, 0)), Split: 1},
			{Scenario: "queue3", Budgets: bs(B(2, 0)), Split: 1},
			// the same queue while it is being retransmitted: the delayed
			// acknowledgements are processed between two writes of the
			// resend loop
			{Scenario: "queue3/resend", Budgets: bs(B(2, 0)), Split: 1},
			{Scenario: "coincide/N=2", Budgets: bs(B(1, 0)), Split: 1},
			{Scenario: "coincide/N=2/at=1999ms", Budgets: bs(B(1, 0)), Split: 1},
			{Scenario: "coincide/N=2/at=2001ms", Budgets: bs(B(1, 0)), Split: 1},
		},
		thorough: []Job{
			{Scenario: "ticker2", Budgets: bs(B(3, 0)), Split: 2},
			{Scenario: "ticker2/rounds=3", Budgets: bs(B(2, 0)), Split: 2},
			{Scenario: "tm3", Budgets: bs(B(3, 0)), Split: 2},
			{Scenario: "queue3", Budgets: bs(B(4, 0)), Split: 2},
			{Scenario: "queue3/resend", Budgets: bs(B(3, 0)), Split: 2},
			{Scenario: "coincide/N=2", Budgets: bs(B(2, 0)), Filter: "tickeronly", Split: 2},
			{Scenario: "coincide/N=2/at=1999ms", Budgets: bs(B(1, 0)), Split: 1},
			{Scenario: "coincide/N=2/at=2001ms", Budgets: bs(B(1, 0)), Split: 1},
			{Scenario: "coincide/N=1", Budgets: bs(B(2, 0)), Filter: "tickeronly", Split: 2},
		},
		quickS: 300, thoroughS: 1800,
	}
	jobTable["C07"] = jobSet{
		quick: []Job{
			{Scenario: "inject/N=2/k=4", Budgets: bs(B(0, 1)), Split: 1},
			{Scenario: "inject/N=1/k=3", Budgets: bs(B(0, 1)), Split: 1},
			// a forged ACK/NACK of every value plus one dropped packet: the
			// bookkeeping the forgery leaves behind is then used by a
			// retransmission
			{Scenario: "inject/N=2/k=3/alpha=acks", Budgets: bs(B(0, 2)), Split: 1},
			{Scenario: "synN(all 256 window bytes)", Scenarios: synNBatch(), Budgets: bs(B(0, 0))},
		},
		thorough: []Job{
			{Scenario: "inject/N=2/k=4", Budgets: bs(B(1, 1)), Split: 2},
			{Scenario: "inject/N=1/k=3", Budgets: bs(B(1, 1)), Split: 2},
			{Scenario: "inject/N=3/k=6", Budgets: bs(B(0, 1)), Split: 1},
			{Scenario: "inject/N=20/k=3", Budgets: bs(B(0, 1)), Split: 1},
			{Scenario: "inject/N=2/k=3/alpha=acks", Budgets: bs(B(1, 2), B(0, 3)), Split: 2},
			{Scenario: "inject/N=1/k=3/alpha=acks", Budgets: bs(B(0, 3)), Split: 1},
			{Scenario: "inject/N=3/k=5/alpha=acks", Budgets: bs(B(0, 2)), Split: 1},
			{Scenario: "synN(all 256 window bytes)", Scenarios: synNBatch(), Budgets: bs(B(1, 0)), Split: 1},
		},
		quickS: 240, thoroughS: 1200,
	}
}

func init() {
	// C20, part "live": how the connection feeds its timeout manager
	// (adaptive mode, every response or every second one a candidate
	// sample, links with and without latency).
	jobTable["C20"] = jobSet{
		quick: []Job{
			{Scenario: "bidi/N=2/k1=3/k2=3/adaptive/freq=1/lat=150ms/tmlive", Budgets: bs(B(0, 2)), Split: 1},
			{Scenario: "bidi/N=2/k1=3/k2=3/adaptive/freq=1/tmlive", Budgets: bs(B(0, 2)), Split: 1},
			{Scenario: "bidi/N=1/k1=3/k2=3/adaptive/freq=2/lat=150ms/tmlive", Budgets: bs(B(0, 2)), Split: 1},
			{Scenario: "uni/N=2/k=4/adaptive/freq=1/lat=150ms/tmlive", Budgets: bs(B(1, 1)), Split: 1},
		},
		thorough: []Job{
			{Scenario: "bidi/N=2/k1=3/k2=3/adaptive/freq=1/lat=150ms/tmlive", Budgets: bs(B(1, 1), B(0, 3)), Split: 2},
			{Scenario: "bidi/N=2/k1=3/k2=3/adaptive/freq=1/tmlive", Budgets: bs(B(1, 1), B(0, 3)), Split: 2},
			{Scenario: "bidi/N=1/k1=3/k2=3/adaptive/freq=2/lat=150ms/tmlive", Budgets: bs(B(1, 1), B(0, 3)), Split: 2},
			{Scenario: "bidi/N=3/k1=5/k2=5/adaptive/freq=3/lat=300ms/tmlive", Budgets: bs(B(0, 2)), Split: 1},
			{Scenario: "uni/N=2/k=4/adaptive/freq=1/lat=150ms/tmlive", Budgets: bs(B(1, 2), B(0, 3)), Split: 2},
		},
		quickS: 150, thoroughS: 900,
	}
}

// jobsFor lists the explorations of a property at a tier and the wall-clock
// budget (seconds) after which expansion stops (exit 0, exhaustive:false).
func jobsFor(prop string, thorough bool) ([]Job, int) {
	js, ok := jobTable[prop]
	if !ok {
		return nil, 0
	}
	if thorough {
		return js.thorough, js.thoroughS
	}
	return js.quick, js.quickS
}
