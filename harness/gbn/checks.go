package gbnh

import (
	"fmt"
	"strings"

	"github.com/lightninglabs/lightning-node-connect/gbn/vrt"

	"verif/engine/explore"
)

// filters are the named site filters a job may use to restrict where
// deviations are placed.
var filters = map[string]explore.Filter{
	// nolocks: no deviation at lock/atomic points.
	"nolocks": func(a vrt.Alt) bool {
		return !(strings.HasSuffix(a.Site, ":Lock") || strings.HasSuffix(a.Site, ":RLock") ||
			strings.Contains(a.Site, ":atomic.") || strings.HasSuffix(a.Site, ":Once.Do"))
	},
}

type jobSet struct {
	quick, thorough   []Job
	quickS, thoroughS int // wall-clock budgets (seconds)
}

func bs(b ...explore.Budget) []explore.Budget { return b }

// jobTable lists the explorations of every property at both tiers.
var jobTable = map[string]jobSet{
	"C01": {
		quick: []Job{
			{Scenario: "uni/N=1/k=5", Budgets: bs(B(1, 1), B(0, 2)), Split: 1},
			{Scenario: "uni/N=2/k=7", Budgets: bs(B(1, 1), B(0, 2)), Split: 1},
			{Scenario: "bidi/N=2/k1=3/k2=3", Budgets: bs(B(1, 0), B(0, 2)), Split: 1},
		},
		thorough: []Job{
			{Scenario: "uni/N=1/k=5", Budgets: bs(B(2, 1), B(1, 2), B(0, 3)), Split: 2},
			{Scenario: "uni/N=2/k=7", Budgets: bs(B(2, 1), B(1, 2), B(0, 3)), Split: 2},
			{Scenario: "uni/N=3/k=5", Budgets: bs(B(1, 1), B(0, 3)), Split: 2},
			{Scenario: "bidi/N=2/k1=3/k2=3", Budgets: bs(B(1, 1), B(0, 3)), Split: 2},
		},
		quickS: 240, thoroughS: 1500,
	},
	"C12": {
		quick: []Job{
			{Scenario: "close/N=2/k=2/closers=2", Budgets: bs(B(2, 0)), Split: 1},
			{Scenario: "closestall/N=1/closers=2", Budgets: bs(B(2, 0)), Split: 1},
		},
		thorough: []Job{
			{Scenario: "close/N=2/k=2/closers=2", Budgets: bs(B(2, 0)), Split: 2},
			{Scenario: "closestall/N=1/closers=2", Budgets: bs(B(2, 0)), Split: 2},
			{Scenario: "closestall/N=2", Budgets: bs(B(2, 0)), Split: 2},
		},
		quickS: 240, thoroughS: 1500,
	},
}

// chunkProduct is the exhaustive canonical-schedule product for C14: every
// chunk size x every sequence of up to maxMsgs messages with lengths 0..maxLen.
func chunkProduct(chunks []int, maxLen, maxMsgs int) []string {
	var out []string
	var rec func(prefix []string)
	for _, c := range chunks {
		rec = func(prefix []string) {
			if len(prefix) > 0 {
				out = append(out, fmt.Sprintf("chunk/c=%d/N=3/lens=%s", c, strings.Join(prefix, ",")))
			}
			if len(prefix) == maxMsgs {
				return
			}
			for l := 0; l <= maxLen; l++ {
				rec(append(append([]string{}, prefix...), fmt.Sprint(l)))
			}
		}
		rec(nil)
	}
	return out
}

func init() {
	jobTable["C14"] = jobSet{
		quick: []Job{
			{Scenario: "chunk-product(c=0..4,len=0..8,msgs<=2)", Scenarios: chunkProduct([]int{0, 1, 2, 3, 4}, 8, 2), Budgets: bs(B(0, 0))},
			{Scenario: "chunk/c=2/lens=0,1,2,3,5", Budgets: bs(B(1, 1), B(0, 2)), Split: 1},
			{Scenario: "chunk/c=1000/lens=4000", Budgets: bs(B(0, 1)), Split: 1},
			{Scenario: "chunkto/c=2/lens=5,3/rt=500ms", Budgets: bs(B(1, 1), B(0, 2)), Split: 1},
			{Scenario: "chunkto/c=2/N=1/lens=5,3/st=700ms", Budgets: bs(B(1, 1), B(0, 2)), Split: 1},
		},
		thorough: []Job{
			{Scenario: "chunk-product(c=0..4,len=0..12,msgs<=3)", Scenarios: chunkProduct([]int{0, 1, 2, 3, 4}, 12, 3), Budgets: bs(B(0, 0))},
			{Scenario: "chunk/c=2/lens=0,1,2,3,5", Budgets: bs(B(2, 1), B(1, 2), B(0, 3)), Split: 2},
			{Scenario: "chunk/c=3/lens=6,0,7", Budgets: bs(B(1, 1), B(0, 3)), Split: 2},
			{Scenario: "chunk/c=1000/lens=4000,65535", Budgets: bs(B(1, 1), B(0, 2)), Split: 1},
			{Scenario: "chunkto/c=2/lens=5,3/rt=500ms", Budgets: bs(B(2, 1), B(1, 2), B(0, 3)), Split: 2},
			{Scenario: "chunkto/c=2/N=1/lens=5,3/st=700ms", Budgets: bs(B(2, 1), B(1, 2), B(0, 3)), Split: 2},
		},
		quickS: 240, thoroughS: 1200,
	}
	jobTable["C09"] = jobSet{
		quick: []Job{
			{Scenario: "fullwindow/N=1", Budgets: bs(B(1, 1), B(0, 2)), Split: 1},
			{Scenario: "fullwindow/N=2", Budgets: bs(B(1, 1), B(0, 2)), Split: 1},
			{Scenario: "fullwindow/N=3", Budgets: bs(B(1, 0), B(0, 1)), Split: 1},
			{Scenario: "fullwindow/N=20", Budgets: bs(B(0, 0))},
		},
		thorough: []Job{
			{Scenario: "fullwindow/N=1", Budgets: bs(B(2, 1), B(1, 2), B(0, 3)), Split: 2},
			{Scenario: "fullwindow/N=2", Budgets: bs(B(2, 1), B(1, 2), B(0, 3)), Split: 2},
			{Scenario: "fullwindow/N=3", Budgets: bs(B(1, 1), B(0, 2)), Split: 2},
			{Scenario: "fullwindow/N=20", Budgets: bs(B(0, 1)), Split: 1},
			{Scenario: "fullwindow/N=254/extra=1", Budgets: bs(B(0, 0))},
		},
		quickS: 240, thoroughS: 1200,
	}
}

// jobsFor lists the explorations of a property at a tier and the wall-clock
// budget (seconds) after which expansion stops (exit 0, exhaustive:false).
func jobsFor(prop string, thorough bool) ([]Job, int) {
	js, ok := jobTable[prop]
	if !ok {
		return nil, 0
	}
	if thorough {
		return js.thorough, js.thoroughS
	}
	return js.quick, js.quickS
}
