package gbnh

import (
	"strings"

	"github.com/lightninglabs/lightning-node-connect/gbn/vrt"

	"verif/engine/explore"
)

// filters are the named site filters a job may use to restrict where
// deviations are placed.
var filters = map[string]explore.Filter{
	// nolocks: no deviation at lock/atomic points.
	"nolocks": func(a vrt.Alt) bool {
		return !(strings.HasSuffix(a.Site, ":Lock") || strings.HasSuffix(a.Site, ":RLock") ||
			strings.Contains(a.Site, ":atomic.") || strings.HasSuffix(a.Site, ":Once.Do"))
	},
}

type jobSet struct {
	quick, thorough   []Job
	quickS, thoroughS int // wall-clock budgets (seconds)
}

func bs(b ...explore.Budget) []explore.Budget { return b }

// jobTable lists the explorations of every property at both tiers.
var jobTable = map[string]jobSet{
	"C01": {
		quick: []Job{
			{Scenario: "uni/N=1/k=5", Budgets: bs(B(1, 1), B(0, 2)), Split: 1},
			{Scenario: "uni/N=2/k=7", Budgets: bs(B(1, 1), B(0, 2)), Split: 1},
			{Scenario: "bidi/N=2/k1=3/k2=3", Budgets: bs(B(1, 0), B(0, 2)), Split: 1},
		},
		thorough: []Job{
			{Scenario: "uni/N=1/k=5", Budgets: bs(B(2, 1), B(1, 2), B(0, 3)), Split: 2},
			{Scenario: "uni/N=2/k=7", Budgets: bs(B(2, 1), B(1, 2), B(0, 3)), Split: 2},
			{Scenario: "uni/N=3/k=5", Budgets: bs(B(1, 1), B(0, 3)), Split: 2},
			{Scenario: "bidi/N=2/k1=3/k2=3", Budgets: bs(B(1, 1), B(0, 3)), Split: 2},
		},
		quickS: 240, thoroughS: 1500,
	},
	"C12": {
		quick: []Job{
			{Scenario: "close/N=2/k=2/closers=2", Budgets: bs(B(2, 0)), Split: 1},
			{Scenario: "closestall/N=1/closers=2", Budgets: bs(B(2, 0)), Split: 1},
		},
		thorough: []Job{
			{Scenario: "close/N=2/k=2/closers=2", Budgets: bs(B(2, 0)), Split: 2},
			{Scenario: "closestall/N=1/closers=2", Budgets: bs(B(2, 0)), Split: 2},
			{Scenario: "closestall/N=2", Budgets: bs(B(2, 0)), Split: 2},
		},
		quickS: 240, thoroughS: 1500,
	},
}

// jobsFor lists the explorations of a property at a tier and the wall-clock
// budget (seconds) after which expansion stops (exit 0, exhaustive:false).
func jobsFor(prop string, thorough bool) ([]Job, int) {
	js, ok := jobTable[prop]
	if !ok {
		return nil, 0
	}
	if thorough {
		return js.thorough, js.thoroughS
	}
	return js.quick, js.quickS
}
