package stackh

import (
	"fmt"
	"strings"

	"github.com/lightninglabs/lightning-node-connect/gbn/vrt"

	"verif/engine/explore"
)

// filters restrict where scheduling deviations are placed.
var filters = map[string]explore.Filter{
	// mailbox: only at points of the mailbox layer, the relay and the
	// application harness (not inside gbn or the ticker).
	"mailbox": func(a vrt.Alt) bool {
		if a.Kind == vrt.KFault || a.Kind == vrt.KDeliver || a.Kind == vrt.KEnvSched {
			return true
		}
		for _, f := range []string{"client.go", "server.go", "client_conn.go", "server_conn.go", "client_transport.go",
			"relay.", "app.", "grpc_noise_conn.go", "interface.go", "conndata.go", "start:"} {
			if strings.Contains(a.Site, f) {
				return true
			}
		}
		return false
	},
}

type jobSet struct {
	quick, thorough   []Job
	quickS, thoroughS int
}

func bs(b ...explore.Budget) []explore.Budget { return b }

// sizeProduct is the canonical-schedule product for C05: every sequence of
// nc client writes and ns server writes with sizes from the given set.
func sizeProduct(sizes []int, nc, ns int) []string {
	var seqs func(n int) []string
	seqs = func(n int) []string {
		if n == 0 {
			return []string{""}
		}
		var out []string
		for _, rest := range seqs(n - 1) {
			for _, z := range sizes {
				if rest == "" {
					out = append(out, fmt.Sprint(z))
				} else {
					out = append(out, rest+","+fmt.Sprint(z))
				}
			}
		}
		return out
	}
	var out []string
	for _, c := range seqs(nc) {
		for _, sv := range seqs(ns) {
			out = append(out, "e2e/c2s="+c+"/s2c="+sv)
		}
	}
	return out
}

var jobTable = map[string]jobSet{
	"C05": {
		quick: []Job{
			// every mix of two client writes and one server write over
			// sizes around the 32 KiB gRPC split and the 64 KiB record limit
			{Scenario: "size-product(c2s: 2 of {1,100,32768,32769,65535}; s2c: 1)",
				Scenarios: sizeProduct([]int{1, 100, 32768, 32769, 65535}, 2, 1), Budgets: bs(B(0, 0))},
			{Scenario: "e2e/c2s=1,100/s2c=32768", Budgets: bs(B(1, 0)), Split: 1},
			// readers that mix small and large buffers within one record
			{Scenario: "read-buffer mixes", Scenarios: []string{
				"e2e/c2s=65535,100/s2c=65535,40000/rbuf=10,32768,70000",
				"e2e/c2s=65535,100/s2c=65535,40000/rbuf=1,40000",
				"e2e/c2s=40000/s2c=65535/rbuf=7,65535,3",
				"e2e/c2s=32769/s2c=32769/rbuf=1,32768",
			}, Budgets: bs(B(0, 0))},
			// the client application hangs up in the middle of the server's
			// answer (10 bytes / 40000 bytes into a 64 KiB record); the next
			// connection of the same NoiseGrpcConn must start clean
			{Scenario: "e2e/c2s=100/s2c=65535/abandon=10", Budgets: bs(B(0, 0))},
			{Scenario: "e2e/c2s=100/s2c=65535,100/abandon=40000", Budgets: bs(B(0, 0))},
			// a stranger's garbage on the rendezvous before the first session
			{Scenario: "e2e/c2s=100,32768/s2c=65535/badfirst", Budgets: bs(B(0, 0))},
			// a relay restart (every mailbox lost) at any idle point
			{Scenario: "e2e/c2s=65535/s2c=1,100/wipe", Budgets: bs(B(0, 1)), Split: 1},
			// the relay unreachable for 30 s (all calls fail, open streams
			// break), at any idle point
			{Scenario: "e2e/c2s=65535/s2c=1,100/down=30s", Budgets: bs(B(0, 1)), Split: 1},
			// 30 s in which the relay loses everything, and a client that
			// does not reconnect: the server must not be left waiting for ever
			{Scenario: "e2e/c2s=65535/s2c=1,100/outage=30s/noretry", Budgets: bs(B(0, 1)), Split: 1},
			{Scenario: "e2e/c2s=100,32768/s2c=65535/closer=server/drop/kill", Budgets: bs(B(0, 1)), Split: 1},
			// (the large job last: it gets whatever is left of the budget)
			{Scenario: "e2e/c2s=65535/s2c=1,100/drop/kill", Budgets: bs(B(0, 2)), Split: 1},
		},
		thorough: []Job{
			{Scenario: "size-product(c2s: 2 of {1,2,100,32767,32768,32769,65534,65535}; s2c: 2 of {1,100,32768,65535})",
				Scenarios: append(sizeProduct([]int{1, 2, 100, 32767, 32768, 32769, 65534, 65535}, 2, 1),
					sizeProduct([]int{1, 100, 32768, 65535}, 1, 2)...), Budgets: bs(B(0, 0))},
			{Scenario: "e2e/c2s=1,100/s2c=32768", Budgets: bs(B(2, 0)), Filter: "mailbox", Split: 2},
			{Scenario: "e2e/c2s=65535/s2c=1,100/drop/kill", Budgets: bs(B(2, 1), B(1, 2), B(0, 3)), Filter: "mailbox", Split: 2},
			{Scenario: "e2e/c2s=100,32768/s2c=65535/closer=server/drop/kill", Budgets: bs(B(1, 1), B(0, 2)), Split: 2},
			{Scenario: "e2e/c2s=1/s2c=1/drop/kill/v=0", Budgets: bs(B(1, 1)), Split: 1},
			{Scenario: "e2e/c2s=100/s2c=65535/abandon=10", Budgets: bs(B(2, 0)), Filter: "mailbox", Split: 2},
			{Scenario: "e2e/c2s=100/s2c=65535/abandon=10/kill", Budgets: bs(B(0, 1)), Split: 1},
			{Scenario: "e2e/c2s=65535/s2c=1,100/wipe/kill", Budgets: bs(B(1, 1), B(0, 2)), Filter: "mailbox", Split: 1},
			{Scenario: "e2e/c2s=65535/s2c=1,100/down=30s/kill", Budgets: bs(B(1, 1), B(0, 2)), Filter: "mailbox", Split: 1},
			{Scenario: "e2e/c2s=65535/s2c=1,100/outage=30s/noretry", Budgets: bs(B(1, 1)), Filter: "mailbox", Split: 1},
			{Scenario: "e2e/c2s=65535/s2c=1,100/outage=12s", Budgets: bs(B(0, 1)), Split: 1},
			{Scenario: "e2e/c2s=100/s2c=100/down=8s/noretry", Budgets: bs(B(0, 1)), Split: 1},
			{Scenario: "e2e/c2s=100/s2c=65535,100/abandon=40000", Budgets: bs(B(1, 0)), Filter: "mailbox", Split: 1},
			{Scenario: "e2e/c2s=100/s2c=65535/abandon=10/locks/stall=2s", Budgets: bs(B(1, 0)), Filter: "mailbox", Split: 1},
		},
		quickS: 300, thoroughS: 1800,
	},
	"C11": {
		quick: []Job{
			{Scenario: "sess/rounds=2/intruder", Budgets: bs(B(1, 0)), Split: 1},
			{Scenario: "sess/rounds=2/closer=server", Budgets: bs(B(1, 0)), Filter: "mailbox", Split: 1},
			{Scenario: "sess/rounds=3/closer=server/v=1", Budgets: bs(B(1, 0)), Filter: "mailbox", Split: 1},
			{Scenario: "sess/rounds=2/kill", Budgets: bs(B(0, 1)), Split: 1},
			// somebody who knows the rendezvous sends garbage and hangs up
			// before the real client connects: what the failed handshake
			// left unread must not meet the next client
			{Scenario: "sess/rounds=2/badfirst", Budgets: bs(B(1, 0)), Filter: "mailbox", Split: 1},
			{Scenario: "sess/rounds=2/v=1/badfirst/kill", Budgets: bs(B(0, 1)), Split: 1},
			// a relay restart (every mailbox lost): both sides must find
			// each other again (version 1: the rendezvous does not move)
			{Scenario: "sess/rounds=2/v=1/wipe", Budgets: bs(B(0, 1)), Split: 1},
			// the relay unreachable for 30 s at any idle point
			{Scenario: "sess/rounds=2/v=1/down=30s", Budgets: bs(B(0, 1)), Split: 1},
			// a stream end killed while the server is the one that hangs up
			{Scenario: "sess/rounds=2/closer=server/kill", Budgets: bs(B(0, 1)), Split: 1},
			// gRPC's connect timeout: every Dial has a 20 s context while the
			// application keeps each connection for 30 s
			{Scenario: "sess/rounds=2/hold=30s/dialto=20s", Budgets: bs(B(1, 0)), Filter: "mailbox", Split: 1},
			// every mutex operation a scheduling point (interleavings
			// inside Close, Dial and Accept)
			{Scenario: "sess/rounds=2/locks", Budgets: bs(B(1, 0)), Filter: "mailbox", Split: 1},
			// one thread kept off the processor for 2 s at any point (a Close
			// descheduled half-way while the next connection is set up and
			// used); judged on the oracles that do not depend on timing
			{Scenario: "sess/rounds=2/locks/stall=2s", Budgets: bs(B(1, 0)), Filter: "mailbox", Split: 1},
		},
		thorough: []Job{
			{Scenario: "sess/rounds=2/intruder", Budgets: bs(B(2, 0)), Filter: "mailbox", Split: 2},
			{Scenario: "sess/rounds=2/closer=server", Budgets: bs(B(2, 0)), Filter: "mailbox", Split: 2},
			{Scenario: "sess/rounds=3/closer=server/v=1", Budgets: bs(B(1, 0)), Split: 1},
			{Scenario: "sess/rounds=2/kill/drop", Budgets: bs(B(1, 1), B(0, 2)), Filter: "mailbox", Split: 2},
			{Scenario: "sess/rounds=3/closer=server/v=1/wipe/kill", Budgets: bs(B(1, 1), B(0, 2)), Filter: "mailbox", Split: 1},
			{Scenario: "sess/rounds=2/v=1/down=30s/kill", Budgets: bs(B(1, 1), B(0, 2)), Filter: "mailbox", Split: 1},
			{Scenario: "sess/rounds=2/closer=server/v=1/down=8s", Budgets: bs(B(1, 1)), Filter: "mailbox", Split: 1},
			{Scenario: "sess/rounds=2/closer=server/kill/drop", Budgets: bs(B(0, 2)), Split: 1},
			{Scenario: "sess/rounds=3/hold=30s/dialto=20s/closer=server", Budgets: bs(B(1, 0)), Filter: "mailbox", Split: 1},
			{Scenario: "sess/rounds=2/locks", Budgets: bs(B(2, 0)), Filter: "mailbox", Split: 2},
			{Scenario: "sess/rounds=2/closer=server/v=1/locks", Budgets: bs(B(1, 0)), Filter: "mailbox", Split: 1},
			{Scenario: "sess/rounds=2/closer=server/stall=5s", Budgets: bs(B(1, 0)), Split: 1},
			{Scenario: "sess/rounds=3/closer=server/v=1/locks/stall=2s", Budgets: bs(B(1, 0)), Filter: "mailbox", Split: 1},
		},
		quickS: 300, thoroughS: 1800,
	},
	// C17, part "relay": the stream ids the two sides really use, session
	// after session (first contact, same-rendezvous reconnects, the move
	// after a version-2 pairing).
	"C17": {
		quick: []Job{
			{Scenario: "rdv/rounds=3/closer=server/v=1", Budgets: bs(B(1, 0)), Filter: "mailbox", Split: 1},
			{Scenario: "rdv/rounds=3", Budgets: bs(B(1, 0)), Filter: "mailbox", Split: 1},
		},
		thorough: []Job{
			{Scenario: "rdv/rounds=3/closer=server/v=1", Budgets: bs(B(2, 0)), Filter: "mailbox", Split: 2},
			{Scenario: "rdv/rounds=3", Budgets: bs(B(2, 0)), Filter: "mailbox", Split: 2},
			{Scenario: "rdv/rounds=3/closer=server", Budgets: bs(B(1, 0)), Split: 1},
			{Scenario: "rdv/rounds=3/v=0", Budgets: bs(B(1, 0)), Split: 1},
		},
		quickS: 150, thoroughS: 1200,
	},
}

func jobsFor(prop string, thorough bool) ([]Job, int) {
	js, ok := jobTable[prop]
	if !ok {
		return nil, 0
	}
	if thorough {
		return js.thorough, js.thoroughS
	}
	return js.quick, js.quickS
}
