// Package stackh runs the composed stack - mailbox Server/Client, their
// Conn types, GBN and the Noise layer - over an in-memory hashmail relay under
// the controlled scheduler.
package stackh

import (
	"context"
	"fmt"
	"io"
	"sync"
	"time"

	"google.golang.org/grpc"
	"google.golang.org/grpc/codes"
	"google.golang.org/grpc/metadata"
	"google.golang.org/grpc/status"

	"github.com/lightninglabs/lightning-node-connect/gbn/vrt"
	"github.com/lightninglabs/lightning-node-connect/hashmailrpc"
)

// box is one cipher box (a unidirectional stream) on the relay.
type box struct {
	id        [64]byte
	name      string
	inflight  [][]byte // accepted from the writer, not yet readable
	ready     [][]byte // readable, FIFO
	signal    chan struct{}
	readerCtx context.Context // non-nil while a reader holds the stream
	writerCtx context.Context
	killRead  bool // the next Recv of the current reader fails
	killWrite bool
	sent      int
	delivered int
	dropped   int
}

// Relay is the fake hashmail server. It follows aperture's semantics: a
// stream must be created before use, one reader and one writer at a time,
// per-stream FIFO, a stream end is released when its holder's context is done.
type Relay struct {
	mu    sync.Mutex
	boxes map[[64]byte]*box
	order [][64]byte // creation order (deterministic iteration)
	// Seen is every message the relay ever saw, for the ciphertext oracle.
	Seen   [][]byte
	SeenID [][64]byte
	// Presented lists the stream ids the endpoints presented, in order.
	Presented []string
	names     map[[64]byte]string
	w         *World
	gen       int
	// blackUntil: until this virtual time the relay loses every message
	// it is given (an outage); 0 = none.
	blackUntil time.Duration
	// downUntil: until this virtual time the relay is unreachable: every
	// call fails and the streams that were open are broken.
	downUntil time.Duration
}

var errRelayDown = status.Error(codes.Unavailable, "connection refused")

// isDown must be called with r.mu held.
func (r *Relay) isDown() bool { return r.downUntil > 0 && r.w.s.Now() < r.downUntil }

func newRelay(w *World) *Relay {
	return &Relay{boxes: map[[64]byte]*box{}, names: map[[64]byte]string{}, w: w}
}

func sid(b []byte) [64]byte {
	var s [64]byte
	copy(s[:], b)
	return s
}

func (r *Relay) nameOf(id [64]byte) string {
	if n, ok := r.names[id]; ok {
		return n
	}
	n := fmt.Sprintf("box%d", len(r.names))
	r.names[id] = n
	return n
}

func released(ctx context.Context) bool {
	return ctx == nil || ctx.Err() != nil
}

// ---- HashMailClient

func (r *Relay) NewCipherBox(ctx context.Context, in *hashmailrpc.CipherBoxAuth,
	_ ...grpc.CallOption) (*hashmailrpc.CipherInitResp, error) {

	vrt.Point("relay.NewCipherBox")
	if err := ctx.Err(); err != nil {
		return nil, err
	}
	r.mu.Lock()
	defer r.mu.Unlock()
	if r.isDown() {
		return nil, errRelayDown
	}
	id := sid(in.Desc.StreamId)
	r.Presented = append(r.Presented, "new:"+r.nameOf(id))
	if _, ok := r.boxes[id]; ok {
		return nil, status.Error(codes.AlreadyExists, "stream already active")
	}
	r.boxes[id] = &box{id: id, name: r.nameOf(id), signal: make(chan struct{}, 1)}
	r.order = append(r.order, id)
	return &hashmailrpc.CipherInitResp{
		Resp: &hashmailrpc.CipherInitResp_Success{Success: &hashmailrpc.CipherSuccess{Desc: in.Desc}},
	}, nil
}

func (r *Relay) DelCipherBox(ctx context.Context, in *hashmailrpc.CipherBoxAuth,
	_ ...grpc.CallOption) (*hashmailrpc.DelCipherBoxResp, error) {

	vrt.Point("relay.DelCipherBox")
	r.mu.Lock()
	defer r.mu.Unlock()
	if r.isDown() {
		return nil, errRelayDown
	}
	id := sid(in.Desc.StreamId)
	r.Presented = append(r.Presented, "del:"+r.nameOf(id))
	if b, ok := r.boxes[id]; ok {
		delete(r.boxes, id)
		for i, o := range r.order {
			if o == id {
				r.order = append(r.order[:i:i], r.order[i+1:]...)
				break
			}
		}
		// wake a blocked reader: its stream is gone
		b.killRead = true
		select {
		case b.signal <- struct{}{}:
		default:
		}
		return &hashmailrpc.DelCipherBoxResp{}, nil
	}
	return nil, status.Error(codes.NotFound, "stream not found")
}

func (r *Relay) SendStream(ctx context.Context, _ ...grpc.CallOption) (hashmailrpc.HashMail_SendStreamClient, error) {
	vrt.Point("relay.SendStream")
	if err := ctx.Err(); err != nil {
		return nil, err
	}
	r.mu.Lock()
	defer r.mu.Unlock()
	if r.isDown() {
		return nil, errRelayDown
	}
	return &sendStream{r: r, ctx: ctx, gen: r.gen}, nil
}

func (r *Relay) RecvStream(ctx context.Context, in *hashmailrpc.CipherBoxDesc,
	_ ...grpc.CallOption) (hashmailrpc.HashMail_RecvStreamClient, error) {

	vrt.Point("relay.RecvStream")
	if err := ctx.Err(); err != nil {
		return nil, err
	}
	r.mu.Lock()
	defer r.mu.Unlock()
	if r.isDown() {
		return nil, errRelayDown
	}
	r.Presented = append(r.Presented, "recv:"+r.nameOf(sid(in.StreamId)))
	return &recvStream{r: r, ctx: ctx, id: sid(in.StreamId), gen: r.gen}, nil
}

var _ hashmailrpc.HashMailClient = (*Relay)(nil)

// ---- write side

type sendStream struct {
	gen      int // relay generation the stream was opened in
	r        *Relay
	ctx      context.Context
	bound    *box
	rejected error
	closed   bool
}

func (s *sendStream) Send(m *hashmailrpc.CipherBox) error {
	vrt.Point("relay.Send")
	if err := s.ctx.Err(); err != nil {
		return err
	}
	if s.closed {
		return io.EOF
	}
	r := s.r
	r.mu.Lock()
	defer r.mu.Unlock()
	if s.rejected != nil {
		return s.rejected
	}
	if r.isDown() || s.gen != r.gen {
		// the stream was opened before (or during) the relay's downtime
		if s.bound != nil && s.bound.writerCtx == s.ctx {
			s.bound.writerCtx = nil
		}
		s.bound = nil
		s.rejected = errRelayDown
		return s.rejected
	}
	r.Seen = append(r.Seen, append([]byte{}, m.Msg...))
	id := sid(m.Desc.StreamId)
	r.SeenID = append(r.SeenID, id)
	if s.bound == nil {
		r.Presented = append(r.Presented, "send:"+r.nameOf(id))
		b, ok := r.boxes[id]
		switch {
		case !ok:
			// gRPC reports the server's refusal on a later call;
			// the message that triggered it is lost.
			s.rejected = status.Error(codes.Unknown, "stream not found")
			vrt.Event("relay refuses writer of " + r.nameOf(id) + ": stream not found")
			return nil
		case !released(b.writerCtx):
			s.rejected = status.Error(codes.Unknown, "write stream occupied")
			vrt.Event("relay refuses writer of " + r.nameOf(id) + ": write stream occupied")
			return nil
		}
		b.writerCtx = s.ctx
		s.bound = b
	}
	b := s.bound
	if cur, ok := r.boxes[b.id]; !ok || cur != b {
		s.rejected = status.Error(codes.Unknown, "stream not found")
		return s.rejected
	}
	if b.killWrite {
		b.killWrite = false
		b.writerCtx = nil
		s.bound = nil
		s.rejected = status.Error(codes.Unavailable, "transport is closing")
		return s.rejected
	}
	b.sent++
	if r.blackUntil > 0 && r.w.s.Now() < r.blackUntil {
		b.dropped++
		return nil
	}
	b.inflight = append(b.inflight, append([]byte{}, m.Msg...))
	return nil
}

func (s *sendStream) CloseAndRecv() (*hashmailrpc.CipherBoxDesc, error) {
	_ = s.CloseSend()
	return &hashmailrpc.CipherBoxDesc{}, nil
}

func (s *sendStream) CloseSend() error {
	s.r.mu.Lock()
	defer s.r.mu.Unlock()
	s.closed = true
	if s.bound != nil && s.bound.writerCtx == s.ctx {
		s.bound.writerCtx = nil
	}
	return nil
}

func (s *sendStream) Header() (metadata.MD, error) { return nil, nil }
func (s *sendStream) Trailer() metadata.MD         { return nil }
func (s *sendStream) Context() context.Context     { return s.ctx }
func (s *sendStream) SendMsg(any) error            { return fmt.Errorf("not supported") }
func (s *sendStream) RecvMsg(any) error            { return fmt.Errorf("not supported") }

// ---- read side

type recvStream struct {
	gen    int // relay generation the stream was opened in
	r      *Relay
	ctx    context.Context
	id     [64]byte
	bound  *box
	failed error
}

func (s *recvStream) Recv() (*hashmailrpc.CipherBox, error) {
	vrt.Point("relay.Recv")
	for {
		if err := s.ctx.Err(); err != nil {
			return nil, err
		}
		r := s.r
		r.mu.Lock()
		if s.failed != nil {
			r.mu.Unlock()
			return nil, s.failed
		}
		if r.isDown() || s.gen != r.gen {
			if s.bound != nil && s.bound.readerCtx == s.ctx {
				s.bound.readerCtx = nil
			}
			s.bound = nil
			s.failed = errRelayDown
			r.mu.Unlock()
			return nil, s.failed
		}
		if s.bound == nil {
			b, ok := r.boxes[s.id]
			switch {
			case !ok:
				s.failed = status.Error(codes.Unknown, "stream not found")
			case !released(b.readerCtx):
				s.failed = status.Error(codes.Unknown, "read stream occupied")
			}
			if s.failed != nil {
				r.mu.Unlock()
				vrt.Event("relay refuses reader of " + r.nameOf(s.id) + ": " + s.failed.Error())
				return nil, s.failed
			}
			b.readerCtx = s.ctx
			s.bound = b
		}
		b := s.bound
		if cur, ok := r.boxes[b.id]; !ok || cur != b {
			s.failed = status.Error(codes.Unknown, "stream not found")
			r.mu.Unlock()
			return nil, s.failed
		}
		if b.killRead {
			b.killRead = false
			b.readerCtx = nil
			s.bound = nil
			s.failed = status.Error(codes.Unavailable, "transport is closing")
			r.mu.Unlock()
			return nil, s.failed
		}
		if len(b.ready) > 0 {
			m := b.ready[0]
			b.ready = b.ready[1:]
			r.mu.Unlock()
			return &hashmailrpc.CipherBox{Desc: &hashmailrpc.CipherBoxDesc{StreamId: s.id[:]}, Msg: m}, nil
		}
		sig := b.signal
		r.mu.Unlock()
		select {
		case <-sig:
		case <-s.ctx.Done():
		}
		vrt.Woke("relay.Recv")
	}
}

func (s *recvStream) CloseSend() error             { return nil }
func (s *recvStream) Header() (metadata.MD, error) { return nil, nil }
func (s *recvStream) Trailer() metadata.MD         { return nil }
func (s *recvStream) Context() context.Context     { return s.ctx }
func (s *recvStream) SendMsg(any) error            { return fmt.Errorf("not supported") }
func (s *recvStream) RecvMsg(any) error            { return fmt.Errorf("not supported") }

// ---- environment actions of the relay

// deliverable lists the boxes with a message in flight, in creation order.
func (r *Relay) deliverable() []*box {
	r.mu.Lock()
	defer r.mu.Unlock()
	var out []*box
	for _, id := range r.order {
		if b := r.boxes[id]; b != nil && len(b.inflight) > 0 {
			out = append(out, b)
		}
	}
	return out
}

func (r *Relay) deliver(b *box) {
	r.mu.Lock()
	m := b.inflight[0]
	b.inflight = b.inflight[1:]
	b.ready = append(b.ready, m)
	b.delivered++
	r.mu.Unlock()
	select {
	case b.signal <- struct{}{}:
	default:
	}
}

func (r *Relay) drop(b *box) {
	r.mu.Lock()
	b.inflight = b.inflight[1:]
	b.dropped++
	r.mu.Unlock()
}

// heldStreams lists the (box, end) pairs currently held by an endpoint.
func (r *Relay) heldStreams() (out []struct {
	b    *box
	read bool
}) {
	r.mu.Lock()
	defer r.mu.Unlock()
	for _, id := range r.order {
		b := r.boxes[id]
		if b == nil {
			continue
		}
		if !released(b.readerCtx) && !b.killRead {
			out = append(out, struct {
				b    *box
				read bool
			}{b, true})
		}
		if !released(b.writerCtx) && !b.killWrite {
			out = append(out, struct {
				b    *box
				read bool
			}{b, false})
		}
	}
	return
}

// wipe is a relay restart: every mailbox is gone with what it held; holders
// of stream ends find out at their next call ("stream not found").
func (r *Relay) wipe() {
	r.mu.Lock()
	defer r.mu.Unlock()
	for _, id := range r.order {
		b := r.boxes[id]
		b.killRead = true
		select {
		case b.signal <- struct{}{}:
		default:
		}
	}
	r.boxes = map[[64]byte]*box{}
	r.order = nil
	r.gen++
}

// outage: for d the relay silently loses everything it is given, and what
// it was holding in flight is lost as well.
func (r *Relay) outage(d time.Duration) {
	r.mu.Lock()
	defer r.mu.Unlock()
	r.blackUntil = r.w.s.Now() + d
	for _, id := range r.order {
		b := r.boxes[id]
		b.dropped += len(b.inflight)
		b.inflight = nil
	}
}

// down: the relay is unreachable for d. The mailboxes and what they hold
// survive (a network partition between both parties and the relay, or a relay
// that keeps its state), every open stream breaks, every call fails meanwhile.
func (r *Relay) down(d time.Duration) {
	r.mu.Lock()
	defer r.mu.Unlock()
	r.downUntil = r.w.s.Now() + d
	r.gen++
	for _, id := range r.order {
		b := r.boxes[id]
		b.readerCtx, b.writerCtx = nil, nil
		select {
		case b.signal <- struct{}{}:
		default:
		}
	}
}

func (r *Relay) boxCount() int {
	r.mu.Lock()
	defer r.mu.Unlock()
	return len(r.boxes)
}

func (r *Relay) kill(b *box, read bool) {
	r.mu.Lock()
	if read {
		b.killRead = true
	} else {
		b.killWrite = true
	}
	r.mu.Unlock()
	if read {
		select {
		case b.signal <- struct{}{}:
		default:
		}
	}
}
