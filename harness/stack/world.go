package stackh

import (
	"bytes"
	"context"
	"fmt"
	"net"
	"strings"
	"sync"
	"time"

	"github.com/btcsuite/btcd/btcec/v2"
	"github.com/lightningnetwork/lnd/keychain"

	"github.com/lightninglabs/lightning-node-connect/gbn/vrt"
	"github.com/lightninglabs/lightning-node-connect/mailbox"
)

// doner is what both mailbox conn types offer.
type doner interface{ Done() <-chan struct{} }

// Session is one connection handed out by Accept or Dial, as seen by one side.
type Session struct {
	Side     string
	Index    int
	Round    int
	At       time.Duration
	Seq      int64
	Conn     net.Conn // the mailbox conn
	Secured  net.Conn // after the Noise handshake
	HsErr    string
	HsDone   bool
	Pattern  string
	RecvSID  [64]byte
	SendSID  [64]byte
	Written  []byte
	Read     []byte
	WriteErr string
	ReadErr  string
	AppDone  bool
	ClosedAt time.Duration
	PrevOpen bool // the previous connection of this side was still open when this one was handed out
	// Closing: this side's application has started to close the connection
	// (or given up on it after an error it observed).
	Closing bool
	// Initiated: ... of its own accord, not in reaction to an error or to
	// the peer's hang-up.
	Initiated bool
	// CloseReturned: that Close call has returned.
	CloseReturned bool
	// PrevClosing: when this connection was handed out (no relay fault so
	// far) the application of the previous one had begun to close it of its
	// own accord and that Close call had not returned yet.
	PrevClosing bool
	// PrevInUse: when this connection was handed out, in a run without any
	// relay fault, neither application had started to close the previous
	// connection: it was taken away from under its users.
	PrevInUse bool
	// BrokenEarly: in a run without any relay fault a call of this
	// session's application failed although neither application had begun
	// to close the connection.
	BrokenEarly string
	// ErrBeforeEnd: a call on the session had failed, or its handshake
	// had, before the harness began to shut the run down.
	ErrBeforeEnd bool
	Success      bool // every byte of the round was written and read and the final ack exchanged
}

// Scenario of the stack world.
type Scenario struct {
	Name string
	Cfg  vrt.Config
	// Round describes what every session transfers (the same every time, so
	// that any two sessions pair up) and who hangs up first; Rounds is how
	// many successful sessions each side wants; MaxAttempts bounds the
	// accept / dial loops.
	Round       Round
	Rounds      int
	MaxAttempts int
	Faults      FaultCfg
	Intruder    string // "", "before", "during", "after": a second client with the original passphrase
	BadFirst    bool   // badfirst: a stranger sends garbage on the rendezvous before the real client connects
	MaxVer      byte
	AuthSize    int
	// Abandon > 0: on its first connection the client application reads
	// only that many bytes of the server's data and hangs up.
	Abandon int
	// Hold: the client application keeps every connection open for this
	// long after the transfer before the session is wound up; DialTimeout:
	// every Dial gets a context that expires after this long, like gRPC's
	// connect timeout.
	Hold        time.Duration
	DialTimeout time.Duration
	// ReadBufs: the buffer sizes the application readers cycle through
	// (default: 32 KiB, gRPC's).
	ReadBufs []int
	// ClientGivesUp: the client makes one connection only and does not
	// dial again when it fails.
	ClientGivesUp bool
	Goal          func(w *World) bool
	IdleAfter     time.Duration
	Final         []func(w *World, x *vrt.Exec)
	Monitors      []func(w *World)
	Owns          map[string]bool
}

// Round is one session's application behaviour.
type Round struct {
	C2S, S2C []int
	Closer   string // "client", "server"
}

// FaultCfg of the relay.
type FaultCfg struct {
	Drop, Kill bool
	Wipe       bool          // one relay restart: all mailboxes lost
	Outage     time.Duration // one outage of this length: everything given to the relay meanwhile is lost
	Down       time.Duration // once, for this long: the relay is unreachable, all calls fail, open streams break
	Max        int
}

type finding struct{ Key, What string }

// World is the closed system. It implements vrt.Env.
type World struct {
	s     *vrt.Sched
	sc    *Scenario
	relay *Relay

	srv *mailbox.Server
	cl  *mailbox.Client
	cdS *mailbox.ConnData
	cdC *mailbox.ConnData
	// One NoiseGrpcConn per side for all of its connections, the way gRPC
	// uses transport credentials: the same object performs every handshake
	// and is the net.Conn of every connection.
	noiseS *mailbox.NoiseGrpcConn
	noiseC *mailbox.NoiseGrpcConn
	// abandoned: the client application has hung up on one session in the
	// middle of the server's data (scenario option abandon=N)
	abandoned bool
	wiped     bool // the relay was restarted once (fault option wipe)
	outaged   bool // the relay had its outage (fault option outage=)
	downed    bool // the relay had its downtime (fault option down=)

	mu        sync.Mutex
	sessS     []*Session
	sessC     []*Session
	intruder  []*Session
	seq       int64
	faults    int
	lastFault time.Duration

	loopsDone int
	loops     int
	goalAt    time.Duration
	goalOK    bool
	findings  []finding
	findKeys  map[string]bool
	reached   map[string]bool
	foreign   []string
	states    []uint64
	canonical bool
	endAt     time.Duration
	rootCtx   context.Context
	rootStop  context.CancelFunc
	authData  []byte
	entropy   []byte
	keyS      *btcec.PrivateKey
	keyC      *btcec.PrivateKey
	storedByS [][]byte // remote static keys the server was told to store
	storedByC [][]byte
	// index of the session whose handshake was running when the key was
	// handed over for storing
	storedAtS, storedAtC []int
	authSeenC            [][]byte
	authSeenI            [][]byte

	relayChecked int
	intruderOn   bool
	intruderDone bool
}

// stallSafe lists the oracles that do not depend on threads making timely
// progress. In a scenario that stalls a thread for seconds (stall=<d>) only
// these are judged: timeouts may then legitimately break a connection, and
// "the application's Close is still running" no longer means that the
// connection is still in use.
var stallSafe = []string{"stream/", "relay-sees-plaintext", "intruder-", "second-connection-while-previous-open/",
	"pairing/key-stored-by-failed-handshake/", "rendezvous/directions-share", "panic"}

func (w *World) fail(key, format string, a ...any) {
	if w.findKeys[key] {
		return
	}
	if w.sc.Cfg.StallQuantum > 0 {
		safe := false
		for _, p := range stallSafe {
			if strings.HasPrefix(key, p) {
				safe = true
			}
		}
		if !safe {
			w.reached["not-judged-under-stall:"+key] = true
			return
		}
	}
	w.findKeys[key] = true
	w.findings = append(w.findings, finding{key, fmt.Sprintf(format, a...)})
}

func (w *World) tick() int64 { w.mu.Lock(); defer w.mu.Unlock(); w.seq++; return w.seq }

func privFrom(tag string) *btcec.PrivateKey {
	var b [32]byte
	copy(b[:], []byte("verif-stack-key-"+tag+"-0123456789abcdef"))
	k, _ := btcec.PrivKeyFromBytes(b[:])
	return k
}

func marker(tag string, n int) []byte {
	b := make([]byte, n)
	pat := []byte("<<PLAINTEXT-" + tag + ">>")
	for i := range b {
		b[i] = pat[i%len(pat)]
		if i >= len(pat) {
			b[i] ^= byte(i/len(pat)) & 0x0f
		}
	}
	return b
}

func newWorld(s *vrt.Sched, sc *Scenario) *World {
	w := &World{s: s, sc: sc, findKeys: map[string]bool{}, reached: map[string]bool{}}
	w.relay = newRelay(w)
	w.rootCtx, w.rootStop = context.WithCancel(context.Background())
	w.keyS, w.keyC = privFrom("server"), privFrom("client")
	w.entropy = []byte{1, 2, 3, 4, 5, 6, 7, 8, 9, 10, 11, 12, 13, 0x14}
	w.authData = marker("MACAROON", sc.AuthSize)

	w.cdS = mailbox.NewConnData(&keychain.PrivKeyECDH{PrivKey: w.keyS}, nil, w.entropy, w.authData,
		func(k *btcec.PublicKey) error {
			w.mu.Lock()
			w.storedByS = append(w.storedByS, k.SerializeCompressed())
			w.storedAtS = append(w.storedAtS, len(w.sessS)-1)
			w.mu.Unlock()
			return nil
		}, nil)
	w.cdC = mailbox.NewConnData(&keychain.PrivKeyECDH{PrivKey: w.keyC}, nil, w.entropy, nil,
		func(k *btcec.PublicKey) error {
			w.mu.Lock()
			w.storedByC = append(w.storedByC, k.SerializeCompressed())
			w.storedAtC = append(w.storedAtC, len(w.sessC)-1)
			w.mu.Unlock()
			return nil
		},
		func(d []byte) error {
			w.mu.Lock()
			w.authSeenC = append(w.authSeenC, append([]byte{}, d...))
			w.mu.Unlock()
			return nil
		})

	var err error
	w.noiseS = mailbox.NewNoiseGrpcConn(w.cdS, w.noiseOpts()...)
	w.noiseC = mailbox.NewNoiseGrpcConn(w.cdC, w.noiseOpts()...)
	w.srv, err = mailbox.VerifNewServer("relay", w.cdS, func(mailbox.ServerStatus) {}, w.relay)
	if err != nil {
		panic(err)
	}
	w.cl, err = mailbox.NewClient(w.rootCtx, "relay", w.cdC, mailbox.VerifWithHashMailClient(w.relay))
	if err != nil {
		panic(err)
	}

	w.loops = 2
	s.Spawn("server-loop", func() { defer w.loopDone(); w.serverLoop() })
	s.Spawn("client-loop", func() { defer w.loopDone(); w.clientLoop() })
	return w
}

func (w *World) loopDone() { w.mu.Lock(); w.loopsDone++; w.mu.Unlock() }

func (w *World) allLoopsDone() bool {
	w.mu.Lock()
	defer w.mu.Unlock()
	return w.loopsDone >= w.loops
}

func isOpen(c net.Conn) bool {
	d, ok := c.(doner)
	if !ok {
		return false
	}
	select {
	case <-d.Done():
		return false
	default:
		return true
	}
}

func (w *World) noiseOpts() []func(*mailbox.NoiseGrpcConn) {
	return []func(*mailbox.NoiseGrpcConn){mailbox.WithMaxHandshakeVersion(w.sc.MaxVer)}
}

type sidser interface {
	VerifSIDs() ([64]byte, [64]byte)
}

// newSession registers a connection handed out by Accept / Dial.
func (w *World) newSession(side string, round int, list *[]*Session, conn net.Conn, cd *mailbox.ConnData) *Session {
	// Calls into the instrumented packages are made without holding w.mu
	// (with lock points on they may park, and the scheduler itself takes
	// w.mu). Only one thread per side creates sessions.
	pattern := cd.HandshakePattern().Name
	var recvSID, sendSID [64]byte
	if k, ok := conn.(sidser); ok {
		recvSID, sendSID = k.VerifSIDs()
	}
	w.mu.Lock()
	var prevConn net.Conn
	if n := len(*list); n > 0 {
		prevConn = (*list)[n-1].Conn
	}
	w.mu.Unlock()
	prevOpen := prevConn != nil && isOpen(prevConn)

	w.mu.Lock()
	defer w.mu.Unlock()
	w.seq++
	ss := &Session{Side: side, Index: len(*list), Round: round, At: w.s.Now(), Seq: w.seq, Conn: conn, ClosedAt: -1,
		Pattern: pattern, RecvSID: recvSID, SendSID: sendSID}
	if n := len(*list); n > 0 {
		prev := (*list)[n-1]
		if prevOpen {
			ss.PrevOpen = true
		}
		// Without relay faults a connection only ends because one of the
		// two applications ends it of its own accord (sessions pair up by
		// index then); everything else is a reaction.
		if w.faults == 0 && prev.Conn != nil && prev.Initiated && !prev.CloseReturned {
			ss.PrevClosing = true
		}
		if w.faults == 0 && prev.Conn != nil && prev.HsDone && !prev.Initiated {
			other := w.sessS
			if side == "server" {
				other = w.sessC
			}
			if prev.Index < len(other) && other[prev.Index].HsDone && !other[prev.Index].Initiated {
				ss.PrevInUse = true
			}
		}
	}
	*list = append(*list, ss)
	return ss
}

// expected returns the bytes one direction of a round carries (the same in
// every round, so that any two sessions pair up).
func expected(tag string, sizes []int) []byte {
	var out []byte
	for i, n := range sizes {
		out = append(out, marker(fmt.Sprintf("%s-%d", tag, i), n)...)
	}
	return out
}

// runApp performs the round's writes and reads on a secured connection and
// reports whether the whole round (including the final ack) succeeded.
func (w *World) runApp(ss *Session, out, in []int, outTag, inTag string, closer bool) bool {
	total := 0
	for _, n := range in {
		total += n
	}
	if n := w.sc.Abandon; n > 0 && ss.Side == "client" {
		w.mu.Lock()
		first := !w.abandoned
		w.abandoned = true
		w.mu.Unlock()
		if first {
			// The application sends its request, reads the first n bytes
			// of the answer and hangs up (a cancelled call, a closed
			// channel): whatever of that answer was already decrypted
			// belongs to this connection and to no later one.
			for i, k := range out {
				b := marker(fmt.Sprintf("%s-%d", outTag, i), k)
				if m, err := ss.Secured.Write(b); err == nil {
					w.mu.Lock()
					ss.Written = append(ss.Written, b[:m]...)
					w.mu.Unlock()
				}
			}
			buf := make([]byte, n)
			m, err := ss.Secured.Read(buf)
			w.mu.Lock()
			if m > 0 && m <= n {
				ss.Read = append(ss.Read, buf[:m]...)
			}
			if err != nil {
				ss.ReadErr = err.Error()
			}
			ss.HsErr = fmt.Sprintf("abandoned by the application after %d bytes", m)
			w.reached["session-abandoned-mid-answer"] = true
			w.mu.Unlock()
			w.closing(ss, true)
			_ = ss.Secured.Close()
			w.closeReturned(ss)
			w.mu.Lock()
			ss.ClosedAt = w.s.Now()
			w.mu.Unlock()
			return false
		}
	}
	var wg sync.WaitGroup
	wg.Add(2)
	vrt.Go(ss.Side+"-writer", func() {
		defer wg.Done()
		for i, n := range out {
			b := marker(fmt.Sprintf("%s-%d", outTag, i), n)
			k, err := ss.Secured.Write(b)
			w.mu.Lock()
			if k > 0 && k <= n {
				ss.Written = append(ss.Written, b[:k]...)
			}
			// net.Conn: Write must not retain the slice; the application
			// reuses its buffer as soon as Write has returned
			for i := range b {
				b[i] = 0xEE
			}
			if err != nil {
				ss.WriteErr = err.Error()
				w.ioError(ss, "Write: "+err.Error())
			} else if k != n {
				ss.WriteErr = fmt.Sprintf("short write %d of %d without error", k, n)
			}
			w.mu.Unlock()
			if err != nil {
				return
			}
		}
	})
	vrt.Go(ss.Side+"-reader", func() {
		defer wg.Done()
		sizes := w.sc.ReadBufs
		if len(sizes) == 0 {
			sizes = []int{32768} // gRPC's read buffer size
		}
		for k := 0; len(ss.Read) < total; k++ {
			buf := make([]byte, sizes[k%len(sizes)])
			n, err := ss.Secured.Read(buf)
			w.mu.Lock()
			if n > 0 && n <= len(buf) {
				ss.Read = append(ss.Read, buf[:n]...)
			}
			if n > len(buf) {
				ss.ReadErr = fmt.Sprintf("Read returned n=%d for a %d-byte buffer", n, len(buf))
			}
			if err != nil {
				ss.ReadErr = err.Error()
				w.ioError(ss, "Read: "+err.Error())
			}
			w.mu.Unlock()
			if err != nil {
				return
			}
		}
	})
	vrt.Point("app.join")
	wg.Wait()
	vrt.Woke("app.join")
	if ss.Side == "client" && w.sc.Hold > 0 {
		time.Sleep(w.sc.Hold)
		vrt.Point("app.hold")
	}
	w.mu.Lock()
	ss.AppDone = true
	ok := ss.ReadErr == "" && ss.WriteErr == "" && len(ss.Read) == total
	w.mu.Unlock()
	switch {
	case !ok:
		w.closing(ss, false)
		_ = ss.Secured.Close()
		w.closeReturned(ss)
	case closer:
		// Like a request/response application, the side that hangs up
		// first waits for the peer's acknowledgement that it has read
		// everything (closing earlier may legitimately cut off data the
		// peer has not consumed yet).
		buf := make([]byte, 16)
		n, err := ss.Secured.Read(buf)
		w.mu.Lock()
		if err != nil {
			ss.ReadErr = "waiting for the final ack: " + err.Error()
			w.ioError(ss, ss.ReadErr)
			ok = false
		} else if n != 1 || buf[0] != '!' {
			ss.ReadErr = fmt.Sprintf("final ack: got %d bytes %q", n, buf[:n])
			ok = false
		}
		w.mu.Unlock()
		w.closing(ss, ok)
		_ = ss.Secured.Close()
		w.closeReturned(ss)
	default:
		_, err := ss.Secured.Write([]byte{'!'})
		if err != nil {
			w.mu.Lock()
			ss.WriteErr = "final ack: " + err.Error()
			w.ioError(ss, ss.WriteErr)
			ok = false
			w.mu.Unlock()
		}
		// then wait for the peer to hang up (a read error), like a
		// gRPC transport does
		buf := make([]byte, 16)
		_, _ = ss.Secured.Read(buf)
		w.closing(ss, false)
		_ = ss.Secured.Close()
		w.closeReturned(ss)
	}
	w.mu.Lock()
	ss.ClosedAt = w.s.Now()
	ss.Success = ok
	w.mu.Unlock()
	return ok
}

// ioError is called (with w.mu held) when an application call on ss failed.
func (w *World) ioError(ss *Session, what string) {
	if w.faults != 0 || ss.Closing || ss.BrokenEarly != "" || ss.Side == "intruder" {
		return
	}
	other := w.sessS
	if ss.Side == "server" {
		other = w.sessC
	}
	if ss.Index < len(other) && (other[ss.Index].Closing || other[ss.Index].Conn == nil) {
		return
	}
	ss.BrokenEarly = what
}

// closing marks that the application of this session is about to close it.
// initiative: it does so of its own accord (the exchange is complete, it is
// abandoning the session), not in reaction to a failed call or to the peer's
// hang-up.
func (w *World) closing(ss *Session, initiative bool) {
	w.mu.Lock()
	ss.Closing = true
	if initiative {
		ss.Initiated = true
	}
	w.mu.Unlock()
}

// closeReturned marks that the application's Close call has returned.
func (w *World) closeReturned(ss *Session) {
	w.mu.Lock()
	ss.CloseReturned = true
	w.mu.Unlock()
}

func (w *World) successes(list []*Session) int {
	w.mu.Lock()
	defer w.mu.Unlock()
	n := 0
	for _, s := range list {
		if s.Success {
			n++
		}
	}
	return n
}

func (w *World) stopped() bool {
	w.mu.Lock()
	defer w.mu.Unlock()
	return w.goalOK
}

// serverLoop plays gRPC's server: it calls Accept again as soon as Accept has
// returned (so exclusivity is up to the listener) and serves every connection
// in its own thread.
func (w *World) serverLoop() {
	rd := w.sc.Round
	var handlers sync.WaitGroup
	for attempt := 0; attempt < w.sc.MaxAttempts && !w.stopped(); attempt++ {
		conn, err := w.srv.Accept()
		if err != nil {
			w.mu.Lock()
			w.sessS = append(w.sessS, &Session{Side: "server", Index: len(w.sessS), At: w.s.Now(), HsErr: "accept: " + err.Error(), ClosedAt: w.s.Now()})
			w.mu.Unlock()
			// Like grpc.Server.Serve: an error that says it is temporary
			// (every failure to set a connection up does) means "call
			// Accept again"; anything else means the listener is closed.
			if te, ok := err.(interface{ Temporary() bool }); !ok || !te.Temporary() {
				break
			}
			time.Sleep(time.Second)
			vrt.Point("server.retry")
			continue
		}
		ss := w.newSession("server", attempt, &w.sessS, conn, w.cdS)
		handlers.Add(1)
		vrt.Go("server-handler", func() {
			defer handlers.Done()
			if w.stopped() {
				w.mu.Lock()
				ss.HsErr, ss.ClosedAt = "not needed any more: closed by the application", w.s.Now()
				w.mu.Unlock()
				w.closing(ss, true)
				_ = conn.Close()
				w.closeReturned(ss)
				return
			}
			sec, _, err := w.noiseS.ServerHandshake(conn)
			if err != nil {
				w.mu.Lock()
				ss.HsErr = err.Error()
				ss.ClosedAt = w.s.Now()
				w.mu.Unlock()
				w.closing(ss, false)
				_ = conn.Close()
				w.closeReturned(ss)
				return
			}
			used := w.noiseS.VerifPattern()
			w.mu.Lock()
			ss.Secured, ss.HsDone = sec, true
			ss.Pattern = used // the pattern the handshake really ran
			w.mu.Unlock()
			w.runApp(ss, rd.S2C, rd.C2S, "S2C", "C2S", rd.Closer == "server")
		})
	}
	vrt.Point("server.join")
	handlers.Wait()
	vrt.Woke("server.join")
}

func (w *World) clientSatisfied() bool {
	if w.successes(w.sessC) < w.sc.Rounds {
		return false
	}
	// give the server a moment to finish its side of the last session
	// before deciding that another one is needed
	for i := 0; i < 10 && w.successes(w.sessS) < w.sc.Rounds && !w.stopped(); i++ {
		time.Sleep(time.Second)
		vrt.Point("client.settle")
	}
	return w.successes(w.sessS) >= w.sc.Rounds
}

// clientLoop plays gRPC's client: it dials again as soon as Dial has returned
// (a reconnecting gRPC channel may dial while the old transport is still being
// torn down, so exclusivity is up to the dialer) and runs every connection in
// its own thread, until the wanted number of sessions has completed.
// strangerGarbage: before the real client shows up, somebody who knows the
// rendezvous (the passphrase-derived stream ids) connects, sends a few bytes
// that are no handshake and hangs up. The server's handshake fails after the
// first byte; what it leaves unread belongs to that connection and must not
// meet the next client.
func (w *World) strangerGarbage() {
	key := privFrom("stranger")
	cd := mailbox.NewConnData(&keychain.PrivKeyECDH{PrivKey: key}, nil, w.entropy, nil, nil, nil)
	ctx, cancel := context.WithTimeout(w.rootCtx, 20*time.Second)
	defer cancel()
	cl, err := mailbox.NewClient(ctx, "relay", cd, mailbox.VerifWithHashMailClient(w.relay))
	if err != nil {
		return
	}
	conn, err := cl.Dial(ctx, "relay")
	if err != nil {
		return
	}
	_, _ = conn.Write([]byte{0x7f, 1, 2, 3, 4, 5, 6, 7, 8, 9})
	// give the server time to read it and give up
	time.Sleep(2 * time.Second)
	vrt.Point("stranger.close")
	_ = conn.Close()
	w.mu.Lock()
	w.reached["stranger-garbage-first"] = true
	w.mu.Unlock()
	time.Sleep(2 * time.Second)
	vrt.Point("stranger.done")
}

func (w *World) clientLoop() {
	rd := w.sc.Round
	if w.sc.BadFirst {
		w.strangerGarbage()
	}
	var handlers sync.WaitGroup
	maxAttempts := w.sc.MaxAttempts
	if w.sc.ClientGivesUp {
		// the client application does not reconnect: one connection, and
		// whatever becomes of it
		maxAttempts = 1
	}
	for attempt := 0; attempt < maxAttempts && !w.stopped(); attempt++ {
		if attempt > 0 && w.clientSatisfied() {
			break
		}
		dctx, dcancel := w.rootCtx, context.CancelFunc(func() {})
		if w.sc.DialTimeout > 0 {
			dctx, dcancel = context.WithTimeout(w.rootCtx, w.sc.DialTimeout)
		}
		conn, err := w.cl.Dial(dctx, "relay")
		dcancel()
		if err != nil {
			w.mu.Lock()
			w.sessC = append(w.sessC, &Session{Side: "client", Index: len(w.sessC), At: w.s.Now(), HsErr: "dial: " + err.Error(), ClosedAt: w.s.Now()})
			w.mu.Unlock()
			time.Sleep(time.Second)
			vrt.Point("client.retry")
			continue
		}
		ss := w.newSession("client", attempt, &w.sessC, conn, w.cdC)
		handlers.Add(1)
		vrt.Go("client-handler", func() {
			defer handlers.Done()
			if w.stopped() || (w.successes(w.sessC) >= w.sc.Rounds && w.successes(w.sessS) >= w.sc.Rounds) {
				w.mu.Lock()
				ss.HsErr, ss.ClosedAt = "not needed any more: closed by the application", w.s.Now()
				w.mu.Unlock()
				w.closing(ss, true)
				_ = conn.Close()
				w.closeReturned(ss)
				return
			}
			sec, _, err := w.noiseC.ClientHandshake(w.rootCtx, "relay", conn)
			if err != nil {
				w.mu.Lock()
				ss.HsErr = err.Error()
				ss.ClosedAt = w.s.Now()
				w.mu.Unlock()
				time.Sleep(time.Second) // gRPC's reconnect back-off
				vrt.Point("client.backoff")
				w.closing(ss, false)
				_ = conn.Close()
				w.closeReturned(ss)
				return
			}
			used := w.noiseC.VerifPattern()
			w.mu.Lock()
			ss.Secured, ss.HsDone = sec, true
			ss.Pattern = used // the pattern the handshake really ran
			w.mu.Unlock()
			ok := w.runApp(ss, rd.C2S, rd.S2C, "C2S", "S2C", rd.Closer == "client")
			if ok && w.sc.Intruder == "after" {
				w.mu.Lock()
				start := !w.intruderOn
				if start {
					w.intruderOn = true
					w.loops++
				}
				w.mu.Unlock()
				if start {
					// the pairing is over: a stranger with the old
					// passphrase shows up
					vrt.Go("intruder", func() { defer w.loopDone(); w.intruderAttempt() })
				}
			}
		})
	}
	vrt.Point("client.join")
	handlers.Wait()
	vrt.Woke("client.join")
}

// intruderAttempt: a different client that only knows the original passphrase
// tries to connect.
func (w *World) intruderAttempt() {
	defer func() { w.mu.Lock(); w.intruderDone = true; w.mu.Unlock() }()
	key := privFrom("intruder")
	var got [][]byte
	cd := mailbox.NewConnData(&keychain.PrivKeyECDH{PrivKey: key}, nil, w.entropy, nil, nil,
		func(d []byte) error { got = append(got, append([]byte{}, d...)); return nil })
	ctx, cancel := context.WithTimeout(w.rootCtx, 20*time.Second)
	defer cancel()
	cl, err := mailbox.NewClient(ctx, "relay", cd, mailbox.VerifWithHashMailClient(w.relay))
	if err != nil {
		return
	}
	ss := &Session{Side: "intruder", At: w.s.Now(), ClosedAt: -1}
	w.mu.Lock()
	ss.Index = len(w.intruder)
	w.intruder = append(w.intruder, ss)
	w.mu.Unlock()
	conn, err := cl.Dial(ctx, "relay")
	if err != nil {
		w.mu.Lock()
		ss.HsErr = "dial: " + err.Error()
		w.mu.Unlock()
		return
	}
	ss.Conn = conn
	noise := mailbox.NewNoiseGrpcConn(cd, w.noiseOpts()...)
	sec, _, err := noise.ClientHandshake(ctx, "relay", conn)
	w.mu.Lock()
	if err != nil {
		ss.HsErr = err.Error()
	} else {
		ss.HsDone, ss.Secured = true, sec
	}
	w.authSeenI = append(w.authSeenI, got...)
	w.mu.Unlock()
	w.closing(ss, true)
	_ = conn.Close()
	w.closeReturned(ss)
}

// ---------------------------------------------------------------- vrt.Env

func (w *World) Actions() []vrt.Action {
	var acts []vrt.Action
	for _, b := range w.relay.deliverable() {
		b := b
		acts = append(acts, vrt.Action{Label: "relay-deliver:" + b.name, Kind: vrt.KDeliver, Default: true,
			Do: func() { w.relay.deliver(b) }})
	}
	f := w.sc.Faults
	if (f.Drop || f.Kill || f.Wipe || f.Outage > 0 || f.Down > 0) && (f.Max == 0 || w.faults < f.Max) && !w.goalOK {
		if f.Drop {
			for _, b := range w.relay.deliverable() {
				b := b
				acts = append(acts, vrt.Action{Label: "relay-drop:" + b.name, Kind: vrt.KFault, OnlyIdle: true,
					Do: func() { w.faults++; w.lastFault = w.s.Now(); w.relay.drop(b) }})
			}
		}
		if f.Wipe && !w.wiped && w.relay.boxCount() > 0 {
			acts = append(acts, vrt.Action{Label: "relay-restart", Kind: vrt.KFault, OnlyIdle: true,
				Do: func() { w.wiped = true; w.faults++; w.lastFault = w.s.Now(); w.relay.wipe() }})
		}
		if f.Outage > 0 && !w.outaged && w.relay.boxCount() > 0 {
			acts = append(acts, vrt.Action{Label: "relay-outage", Kind: vrt.KFault, OnlyIdle: true,
				Do: func() {
					w.outaged = true
					w.faults++
					w.lastFault = w.s.Now() + f.Outage
					w.relay.outage(f.Outage)
				}})
		}
		if f.Down > 0 && !w.downed && w.relay.boxCount() > 0 {
			acts = append(acts, vrt.Action{Label: "relay-down", Kind: vrt.KFault, OnlyIdle: true,
				Do: func() {
					w.downed = true
					w.faults++
					w.lastFault = w.s.Now() + f.Down
					w.relay.down(f.Down)
				}})
		}
		if f.Kill {
			for _, h := range w.relay.heldStreams() {
				h := h
				end := "writer"
				if h.read {
					end = "reader"
				}
				acts = append(acts, vrt.Action{Label: "relay-kill:" + h.b.name + ":" + end, Kind: vrt.KFault, OnlyIdle: true,
					Do: func() { w.faults++; w.lastFault = w.s.Now(); w.relay.kill(h.b, h.read) }})
			}
		}
	}
	return acts
}

func (w *World) DelayAllowed() bool {
	f := w.sc.Faults
	return (f.Drop || f.Kill) && (f.Max == 0 || w.faults < f.Max) && !w.goalOK
}

func (w *World) OnDelay() { w.faults++; w.lastFault = w.s.Now() }

func (w *World) Quiescent(s *vrt.Sched) bool {
	w.states = append(w.states, w.fingerprint())
	for _, m := range w.sc.Monitors {
		m(w)
	}
	if len(w.findings) > 0 {
		return true
	}
	if !w.goalOK && w.sc.Goal(w) {
		w.goalOK = true
		w.goalAt = s.Now()
	}
	if w.goalOK {
		return s.Now() >= w.goalAt+w.sc.IdleAfter
	}
	return false
}

func (w *World) BeforeDrain(s *vrt.Sched) {
	w.endAt = s.Now()
	// What the harness's own shutdown makes the calls return says nothing
	// about the connection: remember which sessions had reported an error
	// by now.
	w.mu.Lock()
	for _, l := range [][]*Session{w.sessC, w.sessS} {
		for _, ss := range l {
			ss.ErrBeforeEnd = ss.HsErr != "" || ss.ReadErr != "" || ss.WriteErr != ""
		}
	}
	w.mu.Unlock()
}

func (w *World) Drain(s *vrt.Sched) {
	w.rootStop()
	vrt.Go("drain-server-close", func() { _ = w.srv.Close() })
	for _, l := range [][]*Session{w.sessC, w.sessS, w.intruder} {
		for _, ss := range l {
			if ss.Conn != nil {
				c := ss.Conn
				vrt.Go("drain-conn-close", func() { _ = c.Close() })
			}
		}
	}
}

func (w *World) fingerprint() uint64 {
	var b bytes.Buffer
	w.mu.Lock()
	for _, l := range [][]*Session{w.sessC, w.sessS} {
		for _, ss := range l {
			fmt.Fprintf(&b, "%s%d:%v:%d:%d:%v|", ss.Side, ss.Index, ss.HsDone, len(ss.Written), len(ss.Read), ss.ClosedAt >= 0)
		}
	}
	w.mu.Unlock()
	w.relay.mu.Lock()
	for _, id := range w.relay.order {
		bx := w.relay.boxes[id]
		fmt.Fprintf(&b, "%s:%d:%d;", bx.name, len(bx.inflight), len(bx.ready))
	}
	w.relay.mu.Unlock()
	for _, t := range w.s.Threads() {
		fmt.Fprintf(&b, "%s@%s;", t.State(), t.Site())
	}
	h := uint64(1469598103934665603)
	for _, c := range b.Bytes() {
		h ^= uint64(c)
		h *= 1099511628211
	}
	return h
}
