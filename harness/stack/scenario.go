package stackh

import (
	"bytes"
	"fmt"
	"strconv"
	"strings"
	"time"

	"github.com/lightninglabs/lightning-node-connect/gbn/vrt"
)

func parseInts(s string) []int {
	var out []int
	for _, f := range strings.Split(s, ",") {
		if f == "" {
			continue
		}
		n, err := strconv.Atoi(f)
		if err != nil {
			panic("bad size list " + s)
		}
		out = append(out, n)
	}
	return out
}

// Build constructs a scenario from its name:
//
//	e2e/c2s=1,100/s2c=32768[/drop][/kill][/maxf=2][/auth=64]
//	sess/rounds=2[/intruder][/closer=server][/v=2]
func Build(name string) *Scenario {
	parts := strings.Split(name, "/")
	p := map[string]string{}
	for _, kv := range parts[1:] {
		if i := strings.IndexByte(kv, '='); i > 0 {
			p[kv[:i]] = kv[i+1:]
		} else {
			p[kv] = "1"
		}
	}
	sc := &Scenario{Name: name, MaxVer: 2, AuthSize: 64, Owns: map[string]bool{}}
	if v, ok := p["v"]; ok {
		n, _ := strconv.Atoi(v)
		sc.MaxVer = byte(n)
	}
	if v, ok := p["auth"]; ok {
		sc.AuthSize, _ = strconv.Atoi(v)
	}
	_, sc.Faults.Drop = p["drop"]
	_, sc.Faults.Kill = p["kill"]
	if v, ok := p["maxf"]; ok {
		sc.Faults.Max, _ = strconv.Atoi(v)
	}
	closer := "client"
	if v, ok := p["closer"]; ok {
		closer = v
	}
	switch parts[0] {
	case "e2e":
		sc.Rounds = []Round{{C2S: parseInts(p["c2s"]), S2C: parseInts(p["s2c"]), Closer: closer}}
		sc.Monitors = append(sc.Monitors, monStreamPrefix, monCiphertextOnly)
		sc.Final = append(sc.Final, finalTransfer)
	case "sess":
		n := 2
		if v, ok := p["rounds"]; ok {
			n, _ = strconv.Atoi(v)
		}
		for i := 0; i < n; i++ {
			c := closer
			if p["closer"] == "alt" {
				c = []string{"client", "server"}[i%2]
			}
			sc.Rounds = append(sc.Rounds, Round{C2S: []int{10 + i}, S2C: []int{20 + i}, Closer: c})
		}
		if _, ok := p["intruder"]; ok {
			sc.Intruder = "after"
		}
		sc.Monitors = append(sc.Monitors, monStreamPrefix, monCiphertextOnly, monExclusive, monIntruder)
		sc.Final = append(sc.Final, finalTransfer, finalSessions)
	default:
		panic("unknown stack scenario " + name)
	}
	sc.Goal = func(w *World) bool { return w.allLoopsDone() }
	sc.IdleAfter = 3 * time.Second
	sc.Cfg = vrt.Config{Horizon: 400 * time.Second, DrainTime: 20 * time.Second, NoStarve: true, MaxSteps: 400000}
	return sc
}

// sessionsOfRound returns the handshake-complete sessions of a round.
func sessionsOfRound(list []*Session, round int) *Session {
	var out *Session
	for _, s := range list {
		if s.HsDone && s.Round == round {
			out = s
		}
	}
	return out
}

// monStreamPrefix is the C05 safety oracle: per round and direction the bytes
// read are a prefix of the bytes written.
func monStreamPrefix(w *World) {
	w.mu.Lock()
	defer w.mu.Unlock()
	for g := range w.sc.Rounds {
		c, s := sessionsOfRound(w.sessC, g), sessionsOfRound(w.sessS, g)
		if c == nil || s == nil {
			continue
		}
		if !bytes.HasPrefix(c.Written, s.Read) {
			w.fail("stream/c2s-not-prefix", "round %d: the server read %d bytes that are not a prefix of the %d bytes the client wrote (first difference at %d)",
				g, len(s.Read), len(c.Written), firstDiff(s.Read, c.Written))
		}
		if !bytes.HasPrefix(s.Written, c.Read) {
			w.fail("stream/s2c-not-prefix", "round %d: the client read %d bytes that are not a prefix of the %d bytes the server wrote (first difference at %d)",
				g, len(c.Read), len(s.Written), firstDiff(c.Read, s.Written))
		}
	}
}

func firstDiff(a, b []byte) int {
	n := len(a)
	if len(b) < n {
		n = len(b)
	}
	for i := 0; i < n; i++ {
		if a[i] != b[i] {
			return i
		}
	}
	return n
}

// monCiphertextOnly: nothing the relay sees contains application plaintext or
// the auth payload.
func monCiphertextOnly(w *World) {
	w.relay.mu.Lock()
	seen := w.relay.Seen[w.relayChecked:]
	w.relayChecked = len(w.relay.Seen)
	w.relay.mu.Unlock()
	needles := [][]byte{[]byte("<<PLAINT"), []byte("PLAINTEX"), []byte("LAINTEXT"), []byte("MACAROON"), []byte("ACAROON>")}
	if len(w.authData) >= 8 {
		needles = append(needles, w.authData[:8])
	}
	for _, m := range seen {
		for _, n := range needles {
			if bytes.Contains(m, n) {
				w.fail("relay-sees-plaintext", "a message of %d bytes handed to the relay contains the plaintext window %q", len(m), n)
				return
			}
		}
	}
}

// monExclusive is the exclusivity oracle of C11.
func monExclusive(w *World) {
	w.mu.Lock()
	defer w.mu.Unlock()
	for _, l := range [][]*Session{w.sessC, w.sessS} {
		for _, s := range l {
			if s.PrevOpen {
				w.fail("second-connection-while-previous-open/"+s.Side,
					"%s: connection #%d was handed out at %v while connection #%d was still open (its Done() channel not closed)",
					s.Side, s.Index, s.At, s.Index-1)
			}
		}
	}
}

// monIntruder: a client that only knows the original passphrase is not
// admitted after the pairing.
func monIntruder(w *World) {
	w.mu.Lock()
	defer w.mu.Unlock()
	for _, s := range w.intruder {
		if s.HsDone {
			w.fail("intruder-admitted", "after the pairing a different client presenting only the original passphrase completed a handshake")
		}
	}
	if len(w.authSeenI) > 0 {
		w.fail("intruder-got-auth-payload", "the unpaired client received the auth payload (%d bytes)", len(w.authSeenI[0]))
	}
}

// finalTransfer is the liveness half of C05: when relay faults have ceased,
// every round either transferred everything or failed visibly.
func finalTransfer(w *World, x *vrt.Exec) {
	if len(w.findings) > 0 {
		return
	}
	w.mu.Lock()
	defer w.mu.Unlock()
	settled := w.endAt >= w.lastFault+100*time.Second || w.faults == 0
	for g, rd := range w.sc.Rounds {
		c, s := sessionsOfRound(w.sessC, g), sessionsOfRound(w.sessS, g)
		wantC2S, wantS2C := 0, 0
		for _, n := range rd.C2S {
			wantC2S += n
		}
		for _, n := range rd.S2C {
			wantS2C += n
		}
		complete := c != nil && s != nil && len(s.Read) == wantC2S && len(c.Read) == wantS2C &&
			bytes.Equal(s.Read, c.Written) && bytes.Equal(c.Read, s.Written)
		if complete {
			w.reached[fmt.Sprintf("round%d-complete", g)] = true
			continue
		}
		// visible failure: some side saw an error / a failed handshake
		visible := false
		for _, l := range [][]*Session{w.sessC, w.sessS} {
			for _, ss := range l {
				if ss.HsErr != "" || ss.ReadErr != "" || ss.WriteErr != "" {
					visible = true
				}
			}
		}
		if w.faults == 0 && w.canonical {
			w.fail(fmt.Sprintf("transfer/clean-run-incomplete/round%d", g),
				"no relay fault, canonical schedule: round %d did not transfer everything (client session %v, server session %v)", g, c != nil, s != nil)
			return
		}
		if !settled {
			continue
		}
		if !visible {
			w.fail(fmt.Sprintf("transfer/silent-stall/round%d", g),
				"%v after the last relay fault round %d has neither completed (server read %d of %d, client read %d of %d) nor has any call on either side reported an error",
				w.endAt-w.lastFault, g, lenOf(s), wantC2S, lenOf(c), wantS2C)
			return
		}
		w.reached["visible-failure"] = true
	}
}

func lenOf(s *Session) int {
	if s == nil {
		return -1
	}
	return len(s.Read)
}

// finalSessions is the reconnect / post-pairing half of C11.
func finalSessions(w *World, x *vrt.Exec) {
	if len(w.findings) > 0 {
		return
	}
	w.mu.Lock()
	defer w.mu.Unlock()
	if w.faults > 0 {
		return
	}
	var first [2]*Session
	for g := range w.sc.Rounds {
		c, s := sessionsOfRound(w.sessC, g), sessionsOfRound(w.sessS, g)
		if c == nil || s == nil {
			if w.canonical {
				w.fail(fmt.Sprintf("reconnect/round%d-missing", g), "canonical schedule, no fault: round %d never got a working connection on both sides", g)
			}
			return
		}
		if c.SendSID != s.RecvSID || c.RecvSID != s.SendSID {
			w.fail("rendezvous/sides-differ", "round %d: client and server use different stream ids", g)
			return
		}
		if c.SendSID == c.RecvSID {
			w.fail("rendezvous/directions-share", "round %d: both directions use the same stream id", g)
			return
		}
		if g == 0 {
			first = [2]*Session{c, s}
			continue
		}
		if w.sc.MaxVer >= 2 {
			if c.Pattern != "KK" || s.Pattern != "KK" {
				w.fail("post-pairing/pattern", "round %d after a version-2 pairing: client uses %s, server uses %s (expected KK on both)", g, c.Pattern, s.Pattern)
				return
			}
			if c.SendSID == first[0].SendSID || s.SendSID == first[1].SendSID {
				w.fail("post-pairing/rendezvous-not-moved", "round %d after the pairing still uses the passphrase-derived stream ids", g)
				return
			}
			w.reached["post-pairing-kk"] = true
		}
	}
	if w.sc.Intruder != "" {
		if len(w.intruder) == 0 {
			if w.canonical {
				w.fail("vacuous/intruder-never-ran", "the intruder never started")
			}
			return
		}
		w.reached["intruder-rejected"] = true
	}
}
