package stackh

import (
	"bytes"
	"github.com/lightninglabs/lightning-node-connect/mailbox"
	"strconv"
	"strings"
	"time"

	"github.com/lightninglabs/lightning-node-connect/gbn/vrt"
)

func parseInts(s string) []int {
	var out []int
	for _, f := range strings.Split(s, ",") {
		if f == "" {
			continue
		}
		n, err := strconv.Atoi(f)
		if err != nil {
			panic("bad size list " + s)
		}
		out = append(out, n)
	}
	return out
}

// Build constructs a scenario from its name:
//
//	e2e/c2s=1,100/s2c=32768[/drop][/kill][/maxf=2][/auth=64]
//	sess/rounds=2[/intruder][/closer=server][/v=2]
func Build(name string) *Scenario {
	parts := strings.Split(name, "/")
	p := map[string]string{}
	for _, kv := range parts[1:] {
		if i := strings.IndexByte(kv, '='); i > 0 {
			p[kv[:i]] = kv[i+1:]
		} else {
			p[kv] = "1"
		}
	}
	sc := &Scenario{Name: name, MaxVer: 2, AuthSize: 64, Owns: map[string]bool{}}
	if v, ok := p["v"]; ok {
		n, _ := strconv.Atoi(v)
		sc.MaxVer = byte(n)
	}
	if v, ok := p["abandon"]; ok {
		sc.Abandon, _ = strconv.Atoi(v)
	}
	if v, ok := p["auth"]; ok {
		sc.AuthSize, _ = strconv.Atoi(v)
	}
	_, sc.Faults.Drop = p["drop"]
	_, sc.Faults.Kill = p["kill"]
	_, sc.Faults.Wipe = p["wipe"]
	if v, ok := p["outage"]; ok {
		sc.Faults.Outage, _ = time.ParseDuration(v)
	}
	if v, ok := p["down"]; ok {
		sc.Faults.Down, _ = time.ParseDuration(v)
	}
	_, sc.ClientGivesUp = p["noretry"]
	_, sc.BadFirst = p["badfirst"]
	if v, ok := p["rbuf"]; ok {
		sc.ReadBufs = parseInts(v)
	}
	if v, ok := p["hold"]; ok {
		sc.Hold, _ = time.ParseDuration(v)
	}
	if v, ok := p["dialto"]; ok {
		sc.DialTimeout, _ = time.ParseDuration(v)
	}
	if v, ok := p["maxf"]; ok {
		sc.Faults.Max, _ = strconv.Atoi(v)
	}
	closer := "client"
	if v, ok := p["closer"]; ok {
		closer = v
	}
	switch parts[0] {
	case "e2e":
		sc.Round = Round{C2S: parseInts(p["c2s"]), S2C: parseInts(p["s2c"]), Closer: closer}
		sc.Rounds = 1
		sc.Monitors = append(sc.Monitors, monStreamPrefix, monCiphertextOnly)
		sc.Final = append(sc.Final, finalTransfer)
	case "sess":
		sc.Rounds = 2
		if v, ok := p["rounds"]; ok {
			sc.Rounds, _ = strconv.Atoi(v)
		}
		sc.Round = Round{C2S: []int{10}, S2C: []int{20}, Closer: closer}
		if _, ok := p["intruder"]; ok {
			sc.Intruder = "after"
		}
		sc.Monitors = append(sc.Monitors, monStreamPrefix, monCiphertextOnly, monExclusive, monIntruder, monPairing)
		sc.Final = append(sc.Final, finalTransfer, finalSessions)
	case "rdv":
		// C17 at the relay: the same consecutive sessions as "sess", judged
		// only on the stream ids every handed-out connection uses.
		sc.Rounds = 2
		if v, ok := p["rounds"]; ok {
			sc.Rounds, _ = strconv.Atoi(v)
		}
		sc.Round = Round{C2S: []int{10}, S2C: []int{20}, Closer: closer}
		sc.Monitors = append(sc.Monitors, monRendezvous)
		sc.Final = append(sc.Final, finalRendezvous)
	default:
		panic("unknown stack scenario " + name)
	}
	sc.MaxAttempts = sc.Rounds + 6
	// Goal: both sides have completed the wanted number of sessions and the
	// relay has been reliable for a while; or nothing has moved for a long
	// time after the last fault.
	sc.Goal = func(w *World) bool {
		done := w.successes(w.sessC) >= sc.Rounds && w.successes(w.sessS) >= sc.Rounds
		if sc.Intruder != "" && !w.intruderFinished() {
			done = false
		}
		if done {
			return true
		}
		return w.s.Now() >= w.lastFault+150*time.Second && w.s.Now() >= 150*time.Second
	}
	sc.IdleAfter = 3 * time.Second
	sc.Cfg = vrt.Config{Horizon: 500 * time.Second, DrainTime: 20 * time.Second, NoStarve: true, MaxSteps: 600000}
	// locks: every mutex / atomic operation of the instrumented packages is
	// a scheduling point too (interleavings inside Close, Dial, Accept ...)
	_, sc.Cfg.LockPoints = p["locks"]
	if sc.Cfg.LockPoints {
		sc.Cfg.MaxSteps = 3000000
	}
	// stall=<d>: a further scheduling deviation, "this thread does not get
	// the processor for d" (e.g. a Close that is descheduled half-way while
	// the next connection is already being set up and used)
	if v, ok := p["stall"]; ok {
		sc.Cfg.StallQuantum, _ = time.ParseDuration(v)
	}
	return sc
}

// monStreamPrefix is the C05 safety oracle: what a session has read is a
// prefix of what the peer writes in a round.
func monStreamPrefix(w *World) {
	w.mu.Lock()
	defer w.mu.Unlock()
	c2s, s2c := expected("C2S", w.sc.Round.C2S), expected("S2C", w.sc.Round.S2C)
	for _, ss := range w.sessS {
		if !bytes.HasPrefix(c2s, ss.Read) {
			w.fail("stream/c2s-not-prefix", "server session %d read %d bytes that are not a prefix of what the client writes (first difference at %d)",
				ss.Index, len(ss.Read), firstDiff(ss.Read, c2s))
		}
	}
	for _, ss := range w.sessC {
		if !bytes.HasPrefix(s2c, ss.Read) {
			w.fail("stream/s2c-not-prefix", "client session %d read %d bytes that are not a prefix of what the server writes (first difference at %d)",
				ss.Index, len(ss.Read), firstDiff(ss.Read, s2c))
		}
	}
}

func firstDiff(a, b []byte) int {
	n := len(a)
	if len(b) < n {
		n = len(b)
	}
	for i := 0; i < n; i++ {
		if a[i] != b[i] {
			return i
		}
	}
	return n
}

// monCiphertextOnly: nothing the relay sees contains application plaintext or
// the auth payload.
func monCiphertextOnly(w *World) {
	w.relay.mu.Lock()
	seen := w.relay.Seen[w.relayChecked:]
	w.relayChecked = len(w.relay.Seen)
	w.relay.mu.Unlock()
	needles := [][]byte{[]byte("<<PLAINT"), []byte("PLAINTEX"), []byte("LAINTEXT"), []byte("MACAROON"), []byte("ACAROON>")}
	if len(w.authData) >= 8 {
		needles = append(needles, w.authData[:8])
	}
	for _, m := range seen {
		for _, n := range needles {
			if bytes.Contains(m, n) {
				w.fail("relay-sees-plaintext", "a message of %d bytes handed to the relay contains the plaintext window %q", len(m), n)
				return
			}
		}
	}
}

// monExclusive is the exclusivity oracle of C11.
func monExclusive(w *World) {
	w.mu.Lock()
	defer w.mu.Unlock()
	for _, l := range [][]*Session{w.sessC, w.sessS} {
		for _, s := range l {
			if s.PrevOpen {
				w.fail("second-connection-while-previous-open/"+s.Side,
					"%s: connection #%d was handed out at %v while connection #%d was still open (its Done() channel not closed)",
					s.Side, s.Index, s.At, s.Index-1)
			}
			if s.BrokenEarly != "" {
				w.fail("connection-broken-under-its-users/"+s.Side,
					"%s: with no relay fault at all and before either application had begun to close connection #%d, a call on it failed: %s",
					s.Side, s.Index, s.BrokenEarly)
			}
			if s.PrevClosing {
				w.fail("second-connection-while-previous-closing/"+s.Side,
					"%s: connection #%d was handed out at %v while the application's Close of connection #%d was still running (no relay fault at all)",
					s.Side, s.Index, s.At, s.Index-1)
			}
			if s.PrevInUse {
				w.fail("second-connection-while-previous-in-use/"+s.Side,
					"%s: connection #%d was handed out at %v although, with no relay fault at all, neither application had begun to close connection #%d: it was taken away from under its users",
					s.Side, s.Index, s.At, s.Index-1)
			}
		}
	}
}

// monIntruder: a client that only knows the original passphrase is not
// admitted after the pairing.
// monPairing: a side stores the peer's static key (and with it moves to the
// key-derived rendezvous and the KK pattern) only in a handshake that it
// completes.
func monPairing(w *World) {
	w.mu.Lock()
	defer w.mu.Unlock()
	for _, side := range []struct {
		name string
		at   []int
		list []*Session
	}{{"client", w.storedAtC, w.sessC}, {"server", w.storedAtS, w.sessS}} {
		for _, i := range side.at {
			if i < 0 || i >= len(side.list) {
				continue
			}
			ss := side.list[i]
			if !ss.HsDone && ss.HsErr != "" && !strings.HasPrefix(ss.HsErr, "not needed") {
				w.fail("pairing/key-stored-by-failed-handshake/"+side.name,
					"%s connection #%d: the peer's static key was stored although this side's handshake failed (%s); the side has moved to the key-derived rendezvous on the strength of a handshake it never completed",
					side.name, i, ss.HsErr)
				return
			}
		}
	}
}

func monIntruder(w *World) {
	w.mu.Lock()
	defer w.mu.Unlock()
	for _, s := range w.intruder {
		if s.HsDone {
			w.fail("intruder-admitted", "after the pairing a different client presenting only the original passphrase completed a handshake")
		}
	}
	if len(w.authSeenI) > 0 {
		w.fail("intruder-got-auth-payload", "the unpaired client received the auth payload (%d bytes)", len(w.authSeenI[0]))
	}
}

func (w *World) intruderFinished() bool {
	w.mu.Lock()
	defer w.mu.Unlock()
	return w.intruderOn && w.loopsDone >= 1 && w.intruderDone
}

// finalTransfer is the liveness half of C05: the clean canonical run transfers
// everything; after relay faults have ceased no session is left stalled
// silently: it either completed or some call on it reported an error.
func finalTransfer(w *World, x *vrt.Exec) {
	if len(w.findings) > 0 {
		return
	}
	w.mu.Lock()
	defer w.mu.Unlock()
	okC, okS := 0, 0
	for _, s := range w.sessC {
		if s.Success {
			okC++
		}
	}
	for _, s := range w.sessS {
		if s.Success {
			okS++
		}
	}
	if okC >= w.sc.Rounds && okS >= w.sc.Rounds {
		w.reached["all-rounds-complete"] = true
	}
	if w.faults == 0 && w.canonical && (okC < w.sc.Rounds || okS < w.sc.Rounds) {
		w.fail("transfer/clean-run-incomplete", "no relay fault, canonical schedule: the client completed %d and the server %d of %d sessions", okC, okS, w.sc.Rounds)
		return
	}
	settled := w.faults == 0 || w.endAt >= w.lastFault+100*time.Second
	if !settled {
		return
	}
	for _, l := range [][]*Session{w.sessC, w.sessS} {
		for _, s := range l {
			if s.Success || s.ErrBeforeEnd {
				if !s.Success {
					w.reached["visible-failure"] = true
				}
				continue
			}
			if w.endAt-s.At < 100*time.Second {
				continue
			}
			// Is the peer's matching attempt failed visibly? A server
			// that sits in its handshake because no client came is
			// waiting, not stalled.
			if !s.HsDone && s.Side == "server" {
				continue
			}
			w.fail("transfer/silent-stall/"+s.Side, "%s session %d (started %v, handshake done %v) has neither completed (read %d bytes) nor reported any error %v later, and the relay has been reliable for %v",
				s.Side, s.Index, s.At, s.HsDone, len(s.Read), w.endAt-s.At, w.endAt-w.lastFault)
			return
		}
	}
}

// finalSessions is the reconnect / post-pairing half of C11.
func finalSessions(w *World, x *vrt.Exec) {
	if len(w.findings) > 0 {
		return
	}
	w.mu.Lock()
	defer w.mu.Unlock()
	// 1. once the relay behaves, both sides get a fresh working connection
	settled := w.faults == 0 || w.endAt >= w.lastFault+100*time.Second
	doneC, doneS := 0, 0
	for _, s := range w.sessC {
		if s.Success {
			doneC++
		}
	}
	for _, s := range w.sessS {
		if s.Success {
			doneS++
		}
	}
	// (when both sides had already completed all their sessions nothing
	// needs to reconnect any more)
	if settled && w.faults > 0 && (doneC < w.sc.Rounds || doneS < w.sc.Rounds) {
		for _, side := range []struct {
			name string
			list []*Session
		}{{"client", w.sessC}, {"server", w.sessS}} {
			fresh := false
			for _, s := range side.list {
				if s.Success && s.ClosedAt > w.lastFault {
					fresh = true
				}
			}
			if !fresh && len(w.storedByC) > 0 && len(w.storedByS) == 0 {
				// The relay failed between the client's and the
				// server's completion of the pairing handshake: the
				// client has stored the server's key and moved to the
				// key-derived rendezvous, the server has not.
				w.fail("reconnect/half-completed-pairing/client-moved-server-did-not",
					"a relay fault hit the last act of the pairing handshake: the client completed it, stored the server's key and now dials the key-derived rendezvous with KK; the server's handshake failed, so it keeps listening on the passphrase-derived rendezvous with XX; %v later they have not met again (%d client attempts)",
					w.endAt-w.lastFault, len(w.sessC))
				return
			}
			if !fresh {
				w.fail("reconnect/no-working-connection-after-failure/"+side.name,
					"%v after the last relay fault the %s has not had a single working connection again (%d attempts)",
					w.endAt-w.lastFault, side.name, len(side.list))
				return
			}
		}
		w.reached["reconnected-after-fault"] = true
	}
	// 2. rendezvous and pattern of the successful sessions
	var firstC, firstS *Session
	for _, s := range w.sessC {
		if s.Success && firstC == nil {
			firstC = s
		}
	}
	for _, s := range w.sessS {
		if s.Success && firstS == nil {
			firstS = s
		}
	}
	if firstC == nil || firstS == nil {
		return
	}
	// (with relay faults a session can complete on one side only, so the
	// first completed session of the client need not be the first completed
	// session of the server)
	if w.faults == 0 && (firstC.SendSID != firstS.RecvSID || firstC.RecvSID != firstS.SendSID) {
		w.fail("rendezvous/sides-differ", "the first session: client and server use different stream ids")
		return
	}
	if firstC.SendSID == firstC.RecvSID {
		w.fail("rendezvous/directions-share", "both directions use the same stream id")
		return
	}
	if w.sc.MaxVer >= 2 {
		for _, side := range [][]*Session{w.sessC, w.sessS} {
			// the pairing is the first connection of this side whose XX
			// handshake completed (under faults that need not be the
			// first session that went on to complete its transfer)
			var first *Session
			for _, s := range side {
				if s.HsDone && s.Pattern == mailbox.XX {
					first = s
					break
				}
			}
			if first == nil {
				continue
			}
			for _, s := range side {
				if s.Index <= first.Index || s.Conn == nil {
					continue
				}
				if s.Pattern != mailbox.KK {
					w.fail("post-pairing/pattern/"+s.Side, "%s connection #%d after a version-2 pairing uses the %s pattern (expected KK)", s.Side, s.Index, s.Pattern)
					return
				}
				if s.SendSID == first.SendSID {
					w.fail("post-pairing/rendezvous-not-moved/"+s.Side, "%s connection #%d after the pairing still uses the passphrase-derived stream ids", s.Side, s.Index)
					return
				}
				if s.Success {
					w.reached["post-pairing-kk"] = true
				}
			}
		}
		if w.canonical && w.faults == 0 && w.sc.Rounds >= 2 && !w.reached["post-pairing-kk"] {
			w.fail("vacuous/post-pairing-not-checked", "canonical fault-free run of %d sessions: no completed session after the pairing was looked at", w.sc.Rounds)
			return
		}
		// both sides moved to the same place
		var lastC, lastS *Session
		for _, s := range w.sessC {
			if s.Success {
				lastC = s
			}
		}
		for _, s := range w.sessS {
			if s.Success {
				lastS = s
			}
		}
		if lastC != firstC && lastS != firstS && (lastC.SendSID != lastS.RecvSID || lastC.RecvSID != lastS.SendSID) {
			w.fail("post-pairing/sides-differ", "after the pairing client and server use different stream ids")
			return
		}
	}
	if w.sc.Intruder != "" {
		if len(w.intruder) == 0 {
			if w.canonical {
				w.fail("vacuous/intruder-never-ran", "the intruder never started")
			}
			return
		}
		w.reached["intruder-rejected"] = true
	}
}

// monRendezvous (C17): every connection either side is handed uses two
// different streams for its two directions, and whenever the two sides are
// connected to the same pair of streams, one's send stream is the other's
// receive stream.
func monRendezvous(w *World) {
	w.mu.Lock()
	defer w.mu.Unlock()
	var zero [64]byte
	for _, l := range [][]*Session{w.sessC, w.sessS} {
		for _, s := range l {
			if s.Conn == nil || (s.SendSID == zero && s.RecvSID == zero) {
				continue
			}
			w.reached["sids-seen"] = true
			if s.SendSID == s.RecvSID {
				w.fail("rendezvous/directions-share/"+s.Side,
					"%s connection #%d sends and receives on the same stream %x…", s.Side, s.Index, s.SendSID[:4])
				return
			}
		}
	}
	for _, c := range w.sessC {
		for _, s := range w.sessS {
			if c.Conn == nil || s.Conn == nil {
				continue
			}
			// same unordered pair of streams, but not mirrored
			if c.SendSID == s.SendSID && c.RecvSID == s.RecvSID {
				w.fail("rendezvous/not-mirrored",
					"client connection #%d and server connection #%d both send on %x… and both receive on %x…",
					c.Index, s.Index, c.SendSID[:4], c.RecvSID[:4])
				return
			}
		}
	}
}

// finalRendezvous (C17): in a run without relay faults all wanted sessions
// completed, every completed client session has a completed server session on
// the mirrored streams, and after a version-2 pairing both sides have moved
// to the same new pair of streams.
func finalRendezvous(w *World, x *vrt.Exec) {
	if len(w.findings) > 0 {
		return
	}
	w.mu.Lock()
	defer w.mu.Unlock()
	if w.faults > 0 {
		return
	}
	okC, okS := 0, 0
	for _, c := range w.sessC {
		if !c.Success {
			continue
		}
		okC++
		mirrored := false
		for _, s := range w.sessS {
			if s.Success && c.SendSID == s.RecvSID && c.RecvSID == s.SendSID {
				mirrored = true
			}
		}
		if !mirrored {
			w.fail("rendezvous/sides-differ",
				"client session #%d completed on streams (send %x…, recv %x…) that no completed server session mirrors",
				c.Index, c.SendSID[:4], c.RecvSID[:4])
			return
		}
	}
	for _, s := range w.sessS {
		if s.Success {
			okS++
		}
	}
	if okC < w.sc.Rounds || okS < w.sc.Rounds {
		w.fail("rendezvous/sessions-do-not-meet",
			"without any relay fault only %d client and %d server sessions of %d completed (%d dial and %d accept attempts): the two sides do not find each other",
			okC, okS, w.sc.Rounds, len(w.sessC), len(w.sessS))
		return
	}
	if w.sc.MaxVer >= 2 {
		var first, last *Session
		for _, c := range w.sessC {
			if c.Success {
				if first == nil {
					first = c
				}
				last = c
			}
		}
		if first != last && last.SendSID == first.SendSID {
			w.fail("rendezvous/not-moved-after-pairing",
				"after the version-2 pairing the client still meets the server on the passphrase-derived streams")
			return
		}
		if first != last {
			w.reached["moved-after-pairing"] = true
		}
	}
	w.reached["all-sessions-mirrored"] = true
}
