// racepart turns the race detector's log files of the auxiliary free-running
// pass into an evidence part (and VIOLATION lines when races were reported).
package main

import (
	"fmt"
	"os"
	"path/filepath"
	"regexp"
	"strconv"
	"strings"

	"verif/lib/ev"
)

func main() {
	if len(os.Args) < 5 {
		fmt.Fprintln(os.Stderr, "usage: racepart <prop> <log-glob> <runs> <scenarios>")
		os.Exit(2)
	}
	prop, glob := os.Args[1], os.Args[2]
	runs, _ := strconv.Atoi(os.Args[3])
	scen, _ := strconv.Atoi(os.Args[4])
	r := ev.StartPart(prop, "exploration", "race")
	files, _ := filepath.Glob(glob)
	frame := regexp.MustCompile(`lightning-node-connect/(gbn|mailbox)\.([^\s(]*(\([^)]*\))?[^\s(]*)\(\)`)
	reports := 0
	for _, f := range files {
		b, err := os.ReadFile(f)
		if err != nil {
			continue
		}
		for _, rep := range strings.Split(string(b), "WARNING: DATA RACE")[1:] {
			reports++
			site := "unknown"
			if m := frame.FindStringSubmatch(rep); m != nil {
				site = m[1] + "." + m[2]
			}
			if len(rep) > 1500 {
				rep = rep[:1500]
			}
			r.Violation("race/"+site, "the race detector reports a data race in a free-running execution: "+strings.TrimSpace(rep), rep)
		}
	}
	// the watchdog lines of the pass itself (argument 5: its output)
	if len(os.Args) > 5 {
		if b, err := os.ReadFile(os.Args[5]); err == nil {
			for _, l := range strings.Split(string(b), "\n") {
				if strings.HasPrefix(l, "RACEPASS-DEADLOCK ") {
					site := l[strings.Index(l, "sites=")+6:]
					r.Violation("freerun/lock-deadlock/"+site,
						"a free-running execution with the real sync types stopped for good with several goroutines of the connection waiting for mutexes (same goroutines, same places, in two stack dumps 3 s apart): "+l, l)
				}
				if strings.HasPrefix(l, "RACEPASS-TIMEOUT ") {
					r.NotExhaustive("free-running pass: " + l + " (a run exceeded the 90 s watchdog without a recognisable lock cycle; pass cut short)")
				}
			}
		}
	}
	r.Set("evaluations", int64(runs))
	r.Set("distinct_nontrivial", int64(scen))
	r.Set("race_reports", reports)
	r.Set("rule", "AUXILIARY, not the deciding step: the bodies of the concurrency scenarios (coincide at three offsets, N=1, ticker2, tm3, close, keepalive traffic, lossy adaptive traffic with retransmissions, tmstress: the TimeoutManager calls of the send/receive/API goroutines looped 3000x) run free (scheduler absent) inside virtual-time bubbles in a binary built with -race, repeated; a race report is a violation (the detector has no false positives), silence is weak evidence; distinct_nontrivial = scenarios run")
	r.Set("exhaustive", false)
	r.Sample(map[string]any{"scenario": "coincide/N=2/at=1999ms", "mode": "free-running under -race"})
	os.Exit(r.Finish())
}
