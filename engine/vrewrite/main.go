// vrewrite instruments a copy of the packages under test for the controlled
// scheduler: it inserts scheduling points before channel operations, replaces
// `go` statements by vrt.Go, rewrites every multi-way select into a
// scheduler-directed deterministic form and points the "sync" and
// "sync/atomic" imports at channel-based shims. The result is written below
// -out together with an overlay.json for `go build -overlay`; /repo itself is
// never modified.
//
// Only go/ast is used (no type information), so the tool keeps working on
// edited sources. Constructs it does not understand make it fail loudly.
package main

import (
	"bytes"
	"crypto/sha256"
	"encoding/json"
	"flag"
	"fmt"
	"go/ast"
	"go/parser"
	"go/printer"
	"go/token"
	"os"
	"path/filepath"
	"sort"
	"strings"
)

const (
	vrtPath     = "github.com/lightninglabs/lightning-node-connect/gbn/vrt"
	vsyncPath   = vrtPath + "/vsync"
	vatomicPath = vrtPath + "/vatomic"
)

type rewriter struct {
	gotos   map[string]bool // labels targeted by a goto in the current function
	fset    *token.FileSet
	file    string
	usedVrt bool
	nsel    int
	stats   map[string]int
}

func fail(format string, a ...any) {
	fmt.Fprintf(os.Stderr, "vrewrite: "+format+"\n", a...)
	os.Exit(1)
}

func main() {
	repo := flag.String("repo", "/repo", "repository root")
	verif := flag.String("verif", "/verif", "verif root (source of the vrt runtime)")
	out := flag.String("out", "/verif/.work/overlay", "output directory")
	mbox := flag.Bool("mailbox", false, "also instrument the mailbox transport files")
	flag.Parse()

	if err := os.MkdirAll(*out, 0o755); err != nil {
		fail("%v", err)
	}
	overlay := map[string]string{}

	// The runtime as a virtual package inside the gbn module.
	for _, sub := range []string{"", "vsync", "vatomic"} {
		dir := filepath.Join(*verif, "engine", "vrt", sub)
		ents, err := os.ReadDir(dir)
		if err != nil {
			fail("%v", err)
		}
		for _, e := range ents {
			if e.IsDir() || !strings.HasSuffix(e.Name(), ".go") {
				continue
			}
			overlay[filepath.Join(*repo, "gbn", "vrt", sub, e.Name())] =
				filepath.Join(dir, e.Name())
		}
	}

	type pkgSpec struct {
		name  string
		files func(string) bool
	}
	pkgs := []pkgSpec{{"gbn", func(string) bool { return true }}}
	if *mbox {
		want := map[string]bool{
			"client.go": true, "server.go": true, "client_conn.go": true,
			"server_conn.go": true, "client_transport.go": true,
			"interface.go": true, "grpc_noise_conn.go": true,
			"conndata.go": true,
		}
		pkgs = append(pkgs, pkgSpec{"mailbox", func(n string) bool { return want[n] }})
	}

	summary := map[string]map[string]int{}
	for _, p := range pkgs {
		dir := filepath.Join(*repo, p.name)
		ents, err := os.ReadDir(dir)
		if err != nil {
			fail("%v", err)
		}
		h := sha256.New()
		odir := filepath.Join(*out, p.name)
		_ = os.RemoveAll(odir)
		if err := os.MkdirAll(odir, 0o755); err != nil {
			fail("%v", err)
		}
		var names []string
		for _, e := range ents {
			n := e.Name()
			if e.IsDir() || !strings.HasSuffix(n, ".go") ||
				strings.HasSuffix(n, "_test.go") || !p.files(n) {
				continue
			}
			names = append(names, n)
		}
		sort.Strings(names)
		for _, n := range names {
			src := filepath.Join(dir, n)
			rw := &rewriter{fset: token.NewFileSet(), file: n, stats: map[string]int{}}
			res, err := rw.rewriteFile(src)
			if err != nil {
				fail("%s: %v", src, err)
			}
			dst := filepath.Join(odir, n+".txt")
			if err := os.WriteFile(dst, res, 0o644); err != nil {
				fail("%v", err)
			}
			overlay[src] = dst
			h.Write([]byte(n))
			h.Write(res)
			summary[p.name+"/"+n] = rw.stats
		}
		// The runtime is part of what is built: include it in the hash.
		var keys []string
		for k := range overlay {
			if strings.Contains(k, "/vrt/") {
				keys = append(keys, k)
			}
		}
		sort.Strings(keys)
		for _, k := range keys {
			b, _ := os.ReadFile(overlay[k])
			h.Write(b)
		}
		// _test.go files influence the conformance run too.
		for _, e := range ents {
			if strings.HasSuffix(e.Name(), "_test.go") {
				b, _ := os.ReadFile(filepath.Join(dir, e.Name()))
				h.Write(b)
			}
		}
		sum := fmt.Sprintf("%x", h.Sum(nil))[:16]
		if err := os.WriteFile(filepath.Join(*out, "hash-"+p.name), []byte(sum), 0o644); err != nil {
			fail("%v", err)
		}
	}

	b, _ := json.MarshalIndent(map[string]any{"Replace": overlay}, "", " ")
	if err := os.WriteFile(filepath.Join(*out, "overlay.json"), b, 0o644); err != nil {
		fail("%v", err)
	}
	sb, _ := json.MarshalIndent(summary, "", " ")
	_ = os.WriteFile(filepath.Join(*out, "summary.json"), sb, 0o644)
	fmt.Printf("vrewrite: %d files instrumented\n", len(summary))
}

func (rw *rewriter) rewriteFile(path string) ([]byte, error) {
	f, err := parser.ParseFile(rw.fset, path, nil, parser.ParseComments)
	if err != nil {
		return nil, err
	}
	// Keep only the comments that precede the package clause (build
	// constraints); all others would be misplaced by the printer once
	// statements move.
	var keep []*ast.CommentGroup
	for _, cg := range f.Comments {
		if cg.End() < f.Package {
			keep = append(keep, cg)
		}
	}
	f.Comments = keep
	f.Doc = nil
	for _, d := range f.Decls {
		switch x := d.(type) {
		case *ast.FuncDecl:
			x.Doc = nil
		case *ast.GenDecl:
			x.Doc = nil
			for _, s := range x.Specs {
				switch y := s.(type) {
				case *ast.ValueSpec:
					y.Doc, y.Comment = nil, nil
				case *ast.TypeSpec:
					y.Doc, y.Comment = nil, nil
					ast.Inspect(y, func(n ast.Node) bool {
						if fl, ok := n.(*ast.Field); ok {
							fl.Doc, fl.Comment = nil, nil
						}
						return true
					})
				case *ast.ImportSpec:
					y.Doc, y.Comment = nil, nil
				}
			}
		}
	}

	// Imports.
	for _, imp := range f.Imports {
		switch imp.Path.Value {
		case `"sync"`:
			name := "sync"
			if imp.Name != nil {
				name = imp.Name.Name
			}
			imp.Name = ast.NewIdent(name)
			imp.Path.Value = fmt.Sprintf("%q", vsyncPath)
			rw.stats["import-sync"]++
		case `"sync/atomic"`:
			name := "atomic"
			if imp.Name != nil {
				name = imp.Name.Name
			}
			imp.Name = ast.NewIdent(name)
			imp.Path.Value = fmt.Sprintf("%q", vatomicPath)
			rw.stats["import-atomic"]++
		}
	}

	for _, d := range f.Decls {
		fd, ok := d.(*ast.FuncDecl)
		if !ok {
			// package-level var initialisers with function literals
			rw.exprsIn(d)
			continue
		}
		if fd.Body != nil {
			// labels that are targets of a goto in this function (a
			// rewritten select must keep such a label at its start)
			rw.gotos = map[string]bool{}
			ast.Inspect(fd.Body, func(n ast.Node) bool {
				if b, ok := n.(*ast.BranchStmt); ok && b.Tok == token.GOTO && b.Label != nil {
					rw.gotos[b.Label.Name] = true
				}
				return true
			})
			rw.block(fd.Body)
		}
	}

	if rw.usedVrt {
		spec := &ast.ImportSpec{
			Name: ast.NewIdent("vrt"),
			Path: &ast.BasicLit{Kind: token.STRING, Value: fmt.Sprintf("%q", vrtPath)},
		}
		gd := &ast.GenDecl{Tok: token.IMPORT, Specs: []ast.Spec{spec}}
		f.Decls = append([]ast.Decl{gd}, f.Decls...)
		f.Imports = append(f.Imports, spec)
	}

	var buf bytes.Buffer
	cfg := printer.Config{Mode: printer.UseSpaces | printer.TabIndent, Tabwidth: 8}
	if err := cfg.Fprint(&buf, rw.fset, f); err != nil {
		return nil, err
	}
	// The result must parse.
	if _, err := parser.ParseFile(token.NewFileSet(), path, buf.Bytes(), 0); err != nil {
		return nil, fmt.Errorf("rewritten file does not parse: %v", err)
	}
	return buf.Bytes(), nil
}

func (rw *rewriter) site(n ast.Node, what string) *ast.BasicLit {
	p := rw.fset.Position(n.Pos())
	return &ast.BasicLit{Kind: token.STRING,
		Value: fmt.Sprintf("%q", fmt.Sprintf("%s:%d:%s", rw.file, p.Line, what))}
}

func (rw *rewriter) vrtCall(fn string, args ...ast.Expr) *ast.CallExpr {
	rw.usedVrt = true
	return &ast.CallExpr{
		Fun:  &ast.SelectorExpr{X: ast.NewIdent("vrt"), Sel: ast.NewIdent(fn)},
		Args: args,
	}
}

func (rw *rewriter) pointStmt(n ast.Node, what string) ast.Stmt {
	rw.stats["points"]++
	return &ast.ExprStmt{X: rw.vrtCall("Point", rw.site(n, what))}
}

// exprsIn rewrites the bodies of all function literals found in the
// expressions of n (not descending into nested statements lists, which are
// handled by block()).
func (rw *rewriter) exprsIn(n ast.Node) {
	if n == nil {
		return
	}
	ast.Inspect(n, func(m ast.Node) bool {
		switch x := m.(type) {
		case *ast.FuncLit:
			rw.block(x.Body)
			return false
		case *ast.BlockStmt:
			if m != n {
				return false
			}
		}
		return true
	})
}

func (rw *rewriter) block(b *ast.BlockStmt) {
	if b == nil {
		return
	}
	b.List = rw.stmts(b.List)
}

// chanOp classifies the first channel operation directly contained in n
// (ignoring nested function literals and nested blocks).
func chanOp(n ast.Node) string {
	found := ""
	if n == nil {
		return ""
	}
	ast.Inspect(n, func(m ast.Node) bool {
		if found != "" {
			return false
		}
		switch x := m.(type) {
		case *ast.FuncLit, *ast.BlockStmt:
			return false
		case *ast.UnaryExpr:
			if x.Op == token.ARROW {
				found = "recv"
			}
		case *ast.SendStmt:
			found = "send"
		case *ast.CallExpr:
			switch f := x.Fun.(type) {
			case *ast.Ident:
				if f.Name == "close" && len(x.Args) == 1 {
					found = "close"
				}
				if f.Name == "cancel" {
					found = "cancel"
				}
			case *ast.SelectorExpr:
				if f.Sel.Name == "cancel" || f.Sel.Name == "cancelCtx" {
					found = "cancel"
				}
			}
		}
		return true
	})
	return found
}

func (rw *rewriter) stmts(list []ast.Stmt) []ast.Stmt {
	var out []ast.Stmt
	for _, s := range list {
		out = append(out, rw.stmt(s)...)
	}
	return out
}

// stmt rewrites one statement into one or more statements.
func (rw *rewriter) stmt(s ast.Stmt) []ast.Stmt {
	switch x := s.(type) {
	case *ast.BlockStmt:
		rw.block(x)
		return []ast.Stmt{x}

	case *ast.LabeledStmt:
		if sel, ok := x.Stmt.(*ast.SelectStmt); ok {
			return rw.selectStmt(sel, x.Label)
		}
		inner := rw.stmt(x.Stmt)
		// The label must stay on the real statement (break/continue
		// targets); a point emitted for it goes in front of the label.
		x.Stmt = inner[len(inner)-1]
		return append(inner[:len(inner)-1:len(inner)-1], x)

	case *ast.IfStmt:
		var pre []ast.Stmt
		if op := chanOp(x.Init); op != "" {
			pre = append(pre, rw.pointStmt(x, op))
		} else if op := chanOp(x.Cond); op != "" {
			pre = append(pre, rw.pointStmt(x, op))
		}
		rw.exprsIn(x.Init)
		rw.exprsIn(x.Cond)
		rw.block(x.Body)
		if x.Else != nil {
			e := rw.stmt(x.Else)
			if len(e) == 1 {
				x.Else = e[0]
			} else {
				x.Else = &ast.BlockStmt{List: e}
			}
		}
		return append(pre, x)

	case *ast.ForStmt:
		if chanOp(x.Cond) != "" || chanOp(x.Post) != "" {
			fail("%s: channel operation in for-loop condition/post is not supported",
				rw.fset.Position(x.Pos()))
		}
		var pre []ast.Stmt
		if op := chanOp(x.Init); op != "" {
			pre = append(pre, rw.pointStmt(x, op))
		}
		rw.exprsIn(x.Init)
		rw.exprsIn(x.Cond)
		rw.exprsIn(x.Post)
		rw.block(x.Body)
		return append(pre, x)

	case *ast.RangeStmt:
		if chanOp(x.X) != "" {
			fail("%s: channel operation in range expression is not supported",
				rw.fset.Position(x.Pos()))
		}
		rw.exprsIn(x.X)
		rw.block(x.Body)
		return []ast.Stmt{x}

	case *ast.SwitchStmt:
		var pre []ast.Stmt
		if op := chanOp(x.Init); op != "" {
			pre = append(pre, rw.pointStmt(x, op))
		} else if op := chanOp(x.Tag); op != "" {
			pre = append(pre, rw.pointStmt(x, op))
		}
		rw.exprsIn(x.Init)
		rw.exprsIn(x.Tag)
		for _, c := range x.Body.List {
			cc := c.(*ast.CaseClause)
			for _, e := range cc.List {
				if chanOp(e) != "" {
					fail("%s: channel operation in case expression is not supported",
						rw.fset.Position(e.Pos()))
				}
				rw.exprsIn(e)
			}
			cc.Body = rw.stmts(cc.Body)
		}
		return append(pre, x)

	case *ast.TypeSwitchStmt:
		var pre []ast.Stmt
		if op := chanOp(x.Init); op != "" {
			pre = append(pre, rw.pointStmt(x, op))
		} else if op := chanOp(x.Assign); op != "" {
			pre = append(pre, rw.pointStmt(x, op))
		}
		rw.exprsIn(x.Init)
		rw.exprsIn(x.Assign)
		for _, c := range x.Body.List {
			cc := c.(*ast.CaseClause)
			cc.Body = rw.stmts(cc.Body)
		}
		return append(pre, x)

	case *ast.SelectStmt:
		return rw.selectStmt(x, nil)

	case *ast.GoStmt:
		return rw.goStmt(x)

	case *ast.DeferStmt:
		return rw.deferStmt(x)

	default:
		// Simple statement: expression, assignment, send, return, decl,
		// inc/dec, branch ...
		rw.exprsIn(s)
		if op := chanOp(s); op != "" {
			out := []ast.Stmt{rw.pointStmt(s, op), s}
			_, isRet := s.(*ast.ReturnStmt)
			if (op == "recv" || op == "send") && !isRet {
				out = append(out, &ast.ExprStmt{X: rw.vrtCall("Woke", rw.site(s, op))})
			}
			return out
		}
		if sleeps(s) {
			rw.stats["sleep"]++
			return []ast.Stmt{s, &ast.ExprStmt{X: rw.vrtCall("Woke", rw.site(s, "sleep"))}}
		}
		return []ast.Stmt{s}
	}
}

func (rw *rewriter) goStmt(g *ast.GoStmt) []ast.Stmt {
	rw.stats["go"]++
	call := g.Call
	site := rw.site(g, "go")
	if fl, ok := call.Fun.(*ast.FuncLit); ok && len(call.Args) == 0 {
		rw.block(fl.Body)
		return []ast.Stmt{&ast.ExprStmt{X: rw.vrtCall("Go", site, fl)}}
	}
	// go f(a, b): evaluate the function value and the arguments now, as
	// the go statement does, then start the thread.
	rw.exprsIn(call)
	rw.nsel++
	id := rw.nsel
	var pre []ast.Stmt
	fn := ast.NewIdent(fmt.Sprintf("_vg%df", id))
	pre = append(pre, define(fn, call.Fun))
	var args []ast.Expr
	for i, a := range call.Args {
		v := ast.NewIdent(fmt.Sprintf("_vg%da%d", id, i))
		pre = append(pre, define(v, a))
		args = append(args, v)
	}
	if call.Ellipsis.IsValid() {
		fail("%s: go statement with variadic spread is not supported",
			rw.fset.Position(g.Pos()))
	}
	body := &ast.BlockStmt{List: []ast.Stmt{
		&ast.ExprStmt{X: &ast.CallExpr{Fun: fn, Args: args}},
	}}
	lit := &ast.FuncLit{Type: &ast.FuncType{Params: &ast.FieldList{}}, Body: body}
	pre = append(pre, &ast.ExprStmt{X: rw.vrtCall("Go", site, lit)})
	return []ast.Stmt{&ast.BlockStmt{List: pre}}
}

func (rw *rewriter) deferStmt(d *ast.DeferStmt) []ast.Stmt {
	call := d.Call
	if id, ok := call.Fun.(*ast.Ident); ok && id.Name == "close" && len(call.Args) == 1 {
		// defer close(ch)  ->  _c := ch; defer func(){ Point; close(_c) }()
		rw.nsel++
		v := ast.NewIdent(fmt.Sprintf("_vd%d", rw.nsel))
		body := &ast.BlockStmt{List: []ast.Stmt{
			rw.pointStmt(d, "close"),
			&ast.ExprStmt{X: &ast.CallExpr{Fun: ast.NewIdent("close"), Args: []ast.Expr{v}}},
		}}
		lit := &ast.FuncLit{Type: &ast.FuncType{Params: &ast.FieldList{}}, Body: body}
		return []ast.Stmt{
			define(v, call.Args[0]),
			&ast.DeferStmt{Call: &ast.CallExpr{Fun: lit}},
		}
	}
	rw.exprsIn(call)
	return []ast.Stmt{d}
}

func define(lhs *ast.Ident, rhs ast.Expr) ast.Stmt {
	return &ast.AssignStmt{Lhs: []ast.Expr{lhs}, Tok: token.DEFINE, Rhs: []ast.Expr{rhs}}
}

func assign(lhs ast.Expr, rhs ast.Expr) ast.Stmt {
	return &ast.AssignStmt{Lhs: []ast.Expr{lhs}, Tok: token.ASSIGN, Rhs: []ast.Expr{rhs}}
}

func intLit(i int) ast.Expr {
	return &ast.BasicLit{Kind: token.INT, Value: fmt.Sprint(i)}
}

// commInfo is one communication clause of a select being rewritten.
type commInfo struct {
	clause *ast.CommClause
	isSend bool
	ch     *ast.Ident // temporary holding the channel
	val    ast.Expr   // send value (maybe a temporary)
	lhs    []ast.Expr // receive targets
	tok    token.Token
	rv     *ast.Ident // temporary for the received value
	rok    *ast.Ident // temporary for the ok flag
}

// comm builds the communication statement for a (probe or blocking) select
// clause of case c.
func (c *commInfo) comm() ast.Stmt {
	if c.isSend {
		return &ast.SendStmt{Chan: c.ch, Value: c.val}
	}
	recv := &ast.UnaryExpr{Op: token.ARROW, X: c.ch}
	switch {
	case c.rv == nil:
		return &ast.ExprStmt{X: recv}
	case c.rok == nil:
		return assign(c.rv, recv)
	default:
		return &ast.AssignStmt{Lhs: []ast.Expr{c.rv, c.rok}, Tok: token.ASSIGN, Rhs: []ast.Expr{recv}}
	}
}

func (rw *rewriter) selectStmt(sel *ast.SelectStmt, label *ast.Ident) []ast.Stmt {
	var (
		comms  []*commInfo
		defCl  *ast.CommClause
		clause = sel.Body.List
	)
	for _, c := range clause {
		cc := c.(*ast.CommClause)
		if cc.Comm == nil {
			defCl = cc
			continue
		}
		comms = append(comms, &commInfo{clause: cc})
	}

	// Bodies first (they may contain selects themselves).
	for _, c := range clause {
		cc := c.(*ast.CommClause)
		cc.Body = rw.stmts(cc.Body)
		if cc.Comm != nil {
			rw.exprsIn(cc.Comm)
		}
	}

	wrap := func(s ast.Stmt) []ast.Stmt {
		if label != nil {
			return []ast.Stmt{&ast.LabeledStmt{Label: label, Stmt: s}}
		}
		return []ast.Stmt{s}
	}

	if len(comms) <= 1 {
		// A plain blocking operation or a non-blocking probe: one
		// scheduling point in front is enough, no choice is involved.
		rw.stats["select-simple"]++
		if len(comms) == 0 {
			return wrap(sel)
		}
		p := rw.pointStmt(sel, "select1")
		if defCl == nil {
			cc := comms[0].clause
			cc.Body = append([]ast.Stmt{&ast.ExprStmt{X: rw.vrtCall("Woke", rw.site(sel, "select1"))}}, cc.Body...)
		}
		if label != nil {
			return []ast.Stmt{p, &ast.LabeledStmt{Label: label, Stmt: sel}}
		}
		return []ast.Stmt{p, sel}
	}

	rw.stats["select-multi"]++
	rw.nsel++
	id := rw.nsel
	name := func(s string, i int) *ast.Ident {
		return ast.NewIdent(fmt.Sprintf("_vs%d%s%d", id, s, i))
	}
	var pre []ast.Stmt

	// 1. Evaluate channel operands (and call-valued send operands) once,
	// in source order.
	for i, c := range comms {
		c.ch = name("c", i)
		switch st := c.clause.Comm.(type) {
		case *ast.SendStmt:
			c.isSend = true
			pre = append(pre, define(c.ch, st.Chan))
			c.val = st.Value
			if hasCall(st.Value) {
				v := name("v", i)
				pre = append(pre, define(v, st.Value))
				c.val = v
			}
		case *ast.ExprStmt:
			u, ok := st.X.(*ast.UnaryExpr)
			if !ok || u.Op != token.ARROW {
				fail("%s: unsupported select case", rw.fset.Position(st.Pos()))
			}
			pre = append(pre, define(c.ch, u.X))
		case *ast.AssignStmt:
			if len(st.Rhs) != 1 {
				fail("%s: unsupported select case", rw.fset.Position(st.Pos()))
			}
			u, ok := st.Rhs[0].(*ast.UnaryExpr)
			if !ok || u.Op != token.ARROW {
				fail("%s: unsupported select case", rw.fset.Position(st.Pos()))
			}
			pre = append(pre, define(c.ch, u.X))
			c.lhs = st.Lhs
			c.tok = st.Tok
			c.rv = name("r", i)
			if len(st.Lhs) == 2 {
				c.rok = name("ok", i)
			}
		default:
			fail("%s: unsupported select case", rw.fset.Position(c.clause.Pos()))
		}
	}
	// 2. Temporaries for received values.
	for _, c := range comms {
		if c.rv != nil {
			pre = append(pre, &ast.DeclStmt{Decl: &ast.GenDecl{Tok: token.VAR, Specs: []ast.Spec{
				&ast.ValueSpec{Names: []*ast.Ident{c.rv}, Values: []ast.Expr{rw.vrtCall("Zero", c.ch)}},
			}}})
			pre = append(pre, assign(ast.NewIdent("_"), c.rv))
		}
		if c.rok != nil {
			pre = append(pre, &ast.DeclStmt{Decl: &ast.GenDecl{Tok: token.VAR, Specs: []ast.Spec{
				&ast.ValueSpec{Names: []*ast.Ident{c.rok}, Type: ast.NewIdent("bool")},
			}}})
			pre = append(pre, assign(ast.NewIdent("_"), c.rok))
		}
	}

	k := name("k", 0)
	p := name("p", 0)
	bp := name("bp", 0)
	site := rw.site(sel, "select")
	pre = append(pre,
		define(k, &ast.UnaryExpr{Op: token.SUB, X: intLit(1)}),
		define(p, rw.vrtCall("Pref", site, intLit(len(comms)))),
		define(bp, ast.NewIdent("false")),
	)

	probe := func(i int, c *commInfo, mark bool) ast.Stmt {
		body := []ast.Stmt{assign(k, intLit(i))}
		if mark {
			body = append(body, assign(bp, ast.NewIdent("true")))
		}
		return &ast.SelectStmt{Body: &ast.BlockStmt{List: []ast.Stmt{
			&ast.CommClause{Comm: c.comm(), Body: body},
			&ast.CommClause{},
		}}}
	}
	kNeg := func() ast.Expr {
		return &ast.BinaryExpr{X: k, Op: token.LSS, Y: intLit(0)}
	}

	// 3. Preferred case first.
	var prefCases []ast.Stmt
	for i, c := range comms {
		prefCases = append(prefCases, &ast.CaseClause{
			List: []ast.Expr{intLit(i)},
			Body: []ast.Stmt{probe(i, c, true)},
		})
	}
	pre = append(pre, &ast.SwitchStmt{Tag: p, Body: &ast.BlockStmt{List: prefCases}})

	// 4. Then all cases in source order, non-blocking. With no scheduler
	// at all (Pref returns -2: the conformance run of the repository's own
	// tests) these probes are skipped, so that the blocking select below
	// makes Go's own uniform choice among the ready cases, exactly like the
	// original statement.
	ordered := func() ast.Expr {
		return &ast.BinaryExpr{
			X:  kNeg(),
			Op: token.LAND,
			Y:  &ast.BinaryExpr{X: p, Op: token.NEQ, Y: &ast.UnaryExpr{Op: token.SUB, X: intLit(2)}},
		}
	}
	for i, c := range comms {
		pre = append(pre, &ast.IfStmt{Cond: ordered(), Body: &ast.BlockStmt{List: []ast.Stmt{probe(i, c, false)}}})
	}

	// 5. Nothing ready: the original blocking select (or its default).
	var fin []ast.Stmt
	for i, c := range comms {
		fin = append(fin, &ast.CommClause{Comm: c.comm(), Body: []ast.Stmt{assign(k, intLit(i))}})
	}
	if defCl != nil {
		fin = append(fin, &ast.CommClause{Body: []ast.Stmt{assign(k, intLit(len(comms)))}})
	}
	blocking := []ast.Stmt{&ast.SelectStmt{Body: &ast.BlockStmt{List: fin}}}
	if defCl == nil {
		// The select really blocks here: when it is woken, hand control
		// back to the scheduler first.
		blocking = append(blocking, &ast.ExprStmt{X: rw.vrtCall("Woke", site)})
	}
	pre = append(pre, &ast.IfStmt{Cond: kNeg(), Body: &ast.BlockStmt{List: blocking}})

	pre = append(pre, &ast.ExprStmt{X: rw.vrtCall("Took", site, p, k, bp)})

	// 6. Dispatch.
	var cases []ast.Stmt
	for i, c := range comms {
		var body []ast.Stmt
		if c.rv != nil {
			rhs := []ast.Expr{c.rv}
			if c.rok != nil {
				rhs = append(rhs, c.rok)
			}
			allBlank := true
			for _, l := range c.lhs {
				if id, ok := l.(*ast.Ident); !ok || id.Name != "_" {
					allBlank = false
				}
			}
			if !allBlank {
				body = append(body, &ast.AssignStmt{Lhs: c.lhs, Tok: c.tok, Rhs: rhs})
			}
		}
		body = append(body, c.clause.Body...)
		cases = append(cases, &ast.CaseClause{List: []ast.Expr{intLit(i)}, Body: body})
	}
	if defCl != nil {
		cases = append(cases, &ast.CaseClause{List: []ast.Expr{intLit(len(comms))}, Body: defCl.Body})
	}
	cases = append(cases, &ast.CaseClause{Body: []ast.Stmt{
		&ast.ExprStmt{X: &ast.CallExpr{Fun: ast.NewIdent("panic"),
			Args: []ast.Expr{&ast.BasicLit{Kind: token.STRING, Value: `"vrt: unreachable select dispatch"`}}}},
	}})
	var sw ast.Stmt = &ast.SwitchStmt{Tag: k, Body: &ast.BlockStmt{List: cases}}
	var whole ast.Stmt
	if label != nil {
		// "break L" in the case bodies must leave the dispatch switch,
		// "goto L" must restart the whole statement (probes included):
		// the breaks get a label of their own on the switch, the original
		// label stays at the start when some goto targets it.
		brk := ast.NewIdent(fmt.Sprintf("_vs%dbrk", id))
		nbrk := 0
		for _, c := range cases {
			ast.Inspect(c, func(n ast.Node) bool {
				switch x := n.(type) {
				case *ast.FuncLit:
					return false
				case *ast.BranchStmt:
					if x.Tok == token.BREAK && x.Label != nil && x.Label.Name == label.Name {
						x.Label = brk
						nbrk++
					}
				}
				return true
			})
		}
		if nbrk > 0 {
			sw = &ast.LabeledStmt{Label: brk, Stmt: sw}
		}
	}
	pre = append(pre, sw)
	whole = &ast.BlockStmt{List: pre}
	if label != nil && rw.gotos[label.Name] {
		rw.stats["select-goto-label"]++
		whole = &ast.LabeledStmt{Label: label, Stmt: whole}
	}

	return []ast.Stmt{whole}
}

// sleeps reports whether the statement directly calls time.Sleep.
func sleeps(n ast.Node) bool {
	found := false
	ast.Inspect(n, func(m ast.Node) bool {
		switch x := m.(type) {
		case *ast.FuncLit, *ast.BlockStmt:
			return false
		case *ast.CallExpr:
			if f, ok := x.Fun.(*ast.SelectorExpr); ok && f.Sel.Name == "Sleep" {
				if id, ok := f.X.(*ast.Ident); ok && id.Name == "time" {
					found = true
				}
			}
		}
		return !found
	})
	return found
}

func hasCall(e ast.Expr) bool {
	found := false
	ast.Inspect(e, func(n ast.Node) bool {
		switch n.(type) {
		case *ast.CallExpr:
			found = true
		case *ast.FuncLit:
			return false
		}
		return !found
	})
	return found
}
