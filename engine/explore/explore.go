// Package explore is the deviation-bounded stateless depth-first search over
// the schedules of the controlled scheduler, sharded over worker processes.
//
// An execution is identified by its list of choices. The canonical execution
// takes choice 0 everywhere. A child of execution x deviates from x at one
// point i (beyond x's own prefix) by taking alternative alt != 0 and then
// continues canonically. Every alternative has a kind; scheduling kinds and
// fault kinds are charged to separate budgets. The set of admitted
// (scheduling, fault) deviation counts is the downward closure of Budgets.
package explore

import (
	"bufio"
	"encoding/json"
	"fmt"
	"io"
	"os"
	"os/exec"
	"runtime"
	"sort"
	"strings"
	"sync"
	"time"

	"github.com/lightninglabs/lightning-node-connect/gbn/vrt"
)

// Budget is a pair (scheduling deviations, fault deviations).
type Budget struct{ S, F int }

func (b Budget) String() string { return fmt.Sprintf("(%d,%d)", b.S, b.F) }

// Finding is an oracle failure on one execution.
type Finding struct {
	Key  string `json:"key"`
	What string `json:"what"`
}

// Outcome is what the harness returns for one execution.
type Outcome struct {
	Exec     *vrt.Exec
	Findings []Finding
	// Class is a short label of the observable outcome (for the count of
	// distinct outcomes).
	Class string
	// States are fingerprints of the quiescent states visited.
	States []uint64
	// Foreign counts events owned by another property's check.
	Foreign []string
	// Vacuous is set when the scenario did not reach its situation.
	Reached map[string]bool
}

// RunFunc executes the schedule given by prefix.
type RunFunc func(scenario string, prefix []int, trace bool) *Outcome

// Filter decides whether a deviation to alternative a is admitted.
type Filter func(a vrt.Alt) bool

// Task is a unit of work handed to a worker.
type Task struct {
	Scenario string   `json:"scenario"`
	Prefix   []int    `json:"prefix"`
	DS       int      `json:"ds"`
	DF       int      `json:"df"`
	Split    int      `json:"split"`
	Budgets  []Budget `json:"budgets"`
	Filter   string   `json:"filter"`
	// Known lists the keys of open known findings: a run that only shows
	// those is still expanded, so that other violations below it are found.
	Known []string `json:"known,omitempty"`
	// DeadlineUnix stops expansion (not a violation) when passed.
	DeadlineUnix int64 `json:"deadline"`
}

// Violation is a finding together with the schedule that produced it.
type Violation struct {
	Finding
	Scenario string `json:"scenario"`
	Choices  []int  `json:"choices"`
	DS       int    `json:"ds"`
	DF       int    `json:"df"`
	Hash     uint64 `json:"hash"`
}

// Report is what a worker returns for a task.
type Report struct {
	Execs       int64            `json:"execs"`
	Steps       int64            `json:"steps"`
	Points      int64            `json:"points"`
	Ineffective int64            `json:"ineffective"`
	Violations  []Violation      `json:"violations,omitempty"`
	Children    []Task           `json:"children,omitempty"`
	Hashes      []uint64         `json:"hashes,omitempty"`
	States      []uint64         `json:"states,omitempty"`
	Classes     map[string]int64 `json:"classes,omitempty"`
	Ends        map[string]int64 `json:"ends,omitempty"`
	Kinds       map[string]int64 `json:"kinds,omitempty"`
	Foreign     map[string]int64 `json:"foreign,omitempty"`
	Reached     map[string]int64 `json:"reached,omitempty"`
	ByLevel     map[string]int64 `json:"by_level,omitempty"`
	Truncated   bool             `json:"truncated,omitempty"`
	Framework   string           `json:"framework,omitempty"`
	MaxPoints   int              `json:"max_points"`
	Recycle     bool             `json:"recycle,omitempty"`
	// Samples are a few explored schedules written out: the deviations
	// (choice point, alternative, kind, site) and the outcome class.
	Samples []string `json:"samples,omitempty"`
}

func (r *Report) merge(o *Report) {
	r.Execs += o.Execs
	r.Steps += o.Steps
	r.Points += o.Points
	r.Ineffective += o.Ineffective
	r.Violations = append(r.Violations, o.Violations...)
	if len(r.Samples) < 4 {
		r.Samples = append(r.Samples, o.Samples...)
		if len(r.Samples) > 4 {
			r.Samples = r.Samples[:4]
		}
	}
	for k, v := range o.Classes {
		if r.Classes == nil {
			r.Classes = map[string]int64{}
		}
		r.Classes[k] += v
	}
	for k, v := range o.Ends {
		if r.Ends == nil {
			r.Ends = map[string]int64{}
		}
		r.Ends[k] += v
	}
	for k, v := range o.Kinds {
		if r.Kinds == nil {
			r.Kinds = map[string]int64{}
		}
		r.Kinds[k] += v
	}
	for k, v := range o.Foreign {
		if r.Foreign == nil {
			r.Foreign = map[string]int64{}
		}
		r.Foreign[k] += v
	}
	for k, v := range o.Reached {
		if r.Reached == nil {
			r.Reached = map[string]int64{}
		}
		r.Reached[k] += v
	}
	for k, v := range o.ByLevel {
		if r.ByLevel == nil {
			r.ByLevel = map[string]int64{}
		}
		r.ByLevel[k] += v
	}
	if o.Truncated {
		r.Truncated = true
	}
	if o.Framework != "" && r.Framework == "" {
		r.Framework = o.Framework
	}
	if o.MaxPoints > r.MaxPoints {
		r.MaxPoints = o.MaxPoints
	}
}

func within(bs []Budget, s, f int) bool {
	for _, b := range bs {
		if s <= b.S && f <= b.F {
			return true
		}
	}
	return false
}

// Worker explores tasks.
type Worker struct {
	Run     RunFunc
	Filters map[string]Filter

	seenHash  map[uint64]bool
	seenState map[uint64]bool
}

// Do processes one task.
func (w *Worker) Do(t Task) *Report {
	if w.seenHash == nil {
		w.seenHash = map[uint64]bool{}
		w.seenState = map[uint64]bool{}
	}
	r := &Report{
		Classes: map[string]int64{}, Ends: map[string]int64{},
		Kinds: map[string]int64{}, Foreign: map[string]int64{},
		Reached: map[string]int64{}, ByLevel: map[string]int64{},
	}
	var filter Filter
	if t.Filter != "" {
		filter = w.Filters[t.Filter]
		if filter == nil {
			r.Framework = "unknown filter " + t.Filter
			return r
		}
	}
	w.explore(t, t.Prefix, t.DS, t.DF, t.Split, filter, r)
	return r
}

func (w *Worker) explore(t Task, prefix []int, ds, df, split int, filter Filter, r *Report) {
	if r.Framework != "" || len(r.Violations) >= 20 {
		return
	}
	o := w.Run(t.Scenario, prefix, false)
	x := o.Exec
	r.Execs++
	r.Steps += int64(x.Steps)
	r.Points += int64(len(x.Points))
	if len(x.Points) > r.MaxPoints {
		r.MaxPoints = len(x.Points)
	}
	r.ByLevel[fmt.Sprintf("(%d,%d)", ds, df)]++
	if strings.HasPrefix(x.End, "replay-divergence") {
		r.Framework = fmt.Sprintf("%s (scenario %s prefix %v)", x.End, t.Scenario, prefix)
		return
	}
	end := x.End
	r.Ends[end]++
	if !w.seenHash[x.Hash] {
		w.seenHash[x.Hash] = true
		r.Hashes = append(r.Hashes, x.Hash)
	}
	for _, s := range o.States {
		if !w.seenState[s] {
			w.seenState[s] = true
			r.States = append(r.States, s)
		}
	}
	r.Classes[o.Class]++
	if len(prefix) > 0 && len(r.Samples) < 2 && (ds+df >= 2 || r.Execs%97 == 3) {
		var devs []string
		for i, c := range x.Choices {
			if c != 0 && i < len(x.Points) && c < len(x.Points[i].Alts) {
				a := x.Points[i].Alts[c]
				devs = append(devs, fmt.Sprintf("point %d -> alternative %d (%s at %s)", i, c, a.Kind, a.Site))
			}
		}
		r.Samples = append(r.Samples, fmt.Sprintf("scenario %s: %d choice points, deviations: %s; outcome: %s",
			t.Scenario, len(x.Points), strings.Join(devs, "; "), o.Class))
	}
	for _, f := range o.Foreign {
		r.Foreign[f]++
	}
	for k, v := range o.Reached {
		if v {
			r.Reached[k]++
		}
	}
	for _, f := range o.Findings {
		r.Violations = append(r.Violations, Violation{
			Finding: f, Scenario: t.Scenario,
			Choices: append([]int{}, x.Choices...), DS: ds, DF: df, Hash: x.Hash,
		})
	}
	if len(prefix) > 0 {
		last := len(prefix) - 1
		if last < len(x.Points) {
			p := x.Points[last]
			r.Kinds[p.Alts[p.Chosen].Kind.String()]++
			if p.Alts[p.Chosen].Kind == vrt.KSelect && p.Miss {
				// The preferred case was not ready: this run
				// equals its parent; do not expand it again.
				r.Ineffective++
				return
			}
		}
	}
	for _, f := range o.Findings {
		known := false
		for _, k := range t.Known {
			if k == f.Key {
				known = true
			}
		}
		if !known {
			// Do not look for further violations below a
			// violating run.
			return
		}
	}
	for i := len(prefix); i < len(x.Points); i++ {
		p := x.Points[i]
		for alt := 1; alt < len(p.Alts); alt++ {
			a := p.Alts[alt]
			nds, ndf := ds, df
			if a.Kind.IsFault() {
				ndf++
			} else {
				nds++
			}
			if !within(t.Budgets, nds, ndf) {
				continue
			}
			if filter != nil && !filter(a) {
				continue
			}
			if a.Kind == vrt.KSelect && alt-1 == p.Took {
				continue
			}
			if t.DeadlineUnix != 0 && time.Now().Unix() > t.DeadlineUnix {
				r.Truncated = true
				return
			}
			child := make([]int, i+1)
			copy(child, x.Choices[:i])
			child[i] = alt
			if split > 0 {
				r.Children = append(r.Children, Task{
					Scenario: t.Scenario, Prefix: child, DS: nds, DF: ndf,
					Split: split - 1, Budgets: t.Budgets, Filter: t.Filter,
					DeadlineUnix: t.DeadlineUnix, Known: t.Known,
				})
				continue
			}
			w.explore(t, child, nds, ndf, 0, filter, r)
			if r.Framework != "" {
				return
			}
		}
	}
}

// Serve is the worker side of the master/worker protocol: one JSON task per
// line on stdin, one JSON report per line on stdout (prefixed by "@@").
func (w *Worker) Serve(in io.Reader, out io.Writer, maxExecs int64) {
	sc := bufio.NewScanner(in)
	sc.Buffer(make([]byte, 1<<20), 1<<26)
	bw := bufio.NewWriter(out)
	var total int64
	for sc.Scan() {
		var t Task
		if err := json.Unmarshal(sc.Bytes(), &t); err != nil {
			fmt.Fprintf(bw, "@@{\"framework\":%q}\n", "bad task: "+err.Error())
			bw.Flush()
			continue
		}
		r := w.Do(t)
		total += r.Execs
		if maxExecs > 0 && total >= maxExecs {
			// Ask to be recycled (leaked goroutines of dead
			// bubbles accumulate in this process).
			r.Recycle = true
		}
		b, _ := json.Marshal(r)
		bw.WriteString("@@")
		bw.Write(b)
		bw.WriteString("\n")
		bw.Flush()
		if r.Recycle {
			return
		}
	}
}

// Master distributes tasks over worker processes.
type Master struct {
	// Cmd builds the command line of a worker process.
	Cmd     func() *exec.Cmd
	Workers int
}

type workerProc struct {
	cmd *exec.Cmd
	in  io.WriteCloser
	out *bufio.Scanner
}

func (m *Master) spawn() (*workerProc, error) {
	c := m.Cmd()
	in, err := c.StdinPipe()
	if err != nil {
		return nil, err
	}
	outp, err := c.StdoutPipe()
	if err != nil {
		return nil, err
	}
	c.Stderr = os.Stderr
	if err := c.Start(); err != nil {
		return nil, err
	}
	sc := bufio.NewScanner(outp)
	sc.Buffer(make([]byte, 1<<20), 1<<28)
	return &workerProc{cmd: c, in: in, out: sc}, nil
}

// Summary is the merged result of an exploration.
type Summary struct {
	Report
	DistinctHashes int
	DistinctStates int
	Wall           time.Duration
}

// Explore runs the root tasks to completion.
func (m *Master) Explore(roots []Task) (*Summary, error) {
	n := m.Workers
	if n <= 0 {
		n = runtime.NumCPU()
	}
	start := time.Now()
	var (
		mu       sync.Mutex
		cond     = sync.NewCond(&mu)
		queue    = append([]Task{}, roots...)
		inflight int
		sum      Summary
		hashes   = map[uint64]bool{}
		states   = map[uint64]bool{}
		firstErr error
	)
	take := func() (Task, bool) {
		mu.Lock()
		defer mu.Unlock()
		for {
			if firstErr != nil {
				return Task{}, false
			}
			if len(queue) > 0 {
				// deepest-first keeps the queue small
				t := queue[len(queue)-1]
				queue = queue[:len(queue)-1]
				if len(t.Prefix) > 0 && t.DeadlineUnix != 0 && time.Now().Unix() > t.DeadlineUnix {
					// out of time: do not even start the subtree
					// (every task costs at least one execution)
					sum.Truncated = true
					continue
				}
				inflight++
				return t, true
			}
			if inflight == 0 {
				return Task{}, false
			}
			cond.Wait()
		}
	}
	done := func(r *Report, err error) {
		mu.Lock()
		defer mu.Unlock()
		inflight--
		if err != nil && firstErr == nil {
			firstErr = err
		}
		if r != nil {
			for _, h := range r.Hashes {
				hashes[h] = true
			}
			for _, s := range r.States {
				states[s] = true
			}
			queue = append(queue, r.Children...)
			r.Children, r.Hashes, r.States = nil, nil, nil
			sum.merge(r)
			if r.Framework != "" && firstErr == nil {
				firstErr = fmt.Errorf("%s", r.Framework)
			}
		}
		cond.Broadcast()
	}

	var wg sync.WaitGroup
	for i := 0; i < n; i++ {
		wg.Add(1)
		go func() {
			defer wg.Done()
			var wp *workerProc
			defer func() {
				if wp != nil {
					wp.in.Close()
					_ = wp.cmd.Wait()
				}
			}()
			for {
				t, ok := take()
				if !ok {
					return
				}
				if wp == nil {
					var err error
					wp, err = m.spawn()
					if err != nil {
						done(nil, err)
						return
					}
				}
				b, _ := json.Marshal(t)
				if _, err := wp.in.Write(append(b, '\n')); err != nil {
					done(nil, fmt.Errorf("worker write: %v", err))
					return
				}
				var rep *Report
				for wp.out.Scan() {
					line := wp.out.Text()
					if !strings.HasPrefix(line, "@@") {
						continue
					}
					rep = &Report{}
					if err := json.Unmarshal([]byte(line[2:]), rep); err != nil {
						done(nil, fmt.Errorf("worker report: %v", err))
						return
					}
					break
				}
				if rep == nil {
					_ = wp.cmd.Wait()
					done(nil, fmt.Errorf("worker died on task %s prefix %v (state: %v)",
						t.Scenario, t.Prefix, wp.cmd.ProcessState))
					wp = nil
					return
				}
				if rep.Recycle {
					wp.in.Close()
					_ = wp.cmd.Wait()
					wp = nil
				}
				done(rep, nil)
			}
		}()
	}
	wg.Wait()
	sum.DistinctHashes = len(hashes)
	sum.DistinctStates = len(states)
	sum.Wall = time.Since(start)
	sort.SliceStable(sum.Violations, func(i, j int) bool {
		a, b := sum.Violations[i], sum.Violations[j]
		if a.DS+a.DF != b.DS+b.DF {
			return a.DS+a.DF < b.DS+b.DF
		}
		return len(a.Choices) < len(b.Choices)
	})
	return &sum, firstErr
}
