// Package vatomic replaces "sync/atomic" in the instrumented copy: the
// operations are the real ones preceded by an (optional) scheduling point.
package vatomic

import (
	realatomic "sync/atomic"

	"github.com/lightninglabs/lightning-node-connect/gbn/vrt"
)

type (
	Bool    = realatomic.Bool
	Int32   = realatomic.Int32
	Int64   = realatomic.Int64
	Uint32  = realatomic.Uint32
	Uint64  = realatomic.Uint64
	Value   = realatomic.Value
	Uintptr = realatomic.Uintptr
)

func LoadUint32(addr *uint32) uint32 {
	vrt.LockPoint("atomic.Load")
	return realatomic.LoadUint32(addr)
}

func StoreUint32(addr *uint32, v uint32) {
	vrt.LockPoint("atomic.Store")
	realatomic.StoreUint32(addr, v)
}

func AddUint32(addr *uint32, d uint32) uint32 {
	vrt.LockPoint("atomic.Add")
	return realatomic.AddUint32(addr, d)
}

func CompareAndSwapUint32(addr *uint32, o, n uint32) bool {
	vrt.LockPoint("atomic.CAS")
	return realatomic.CompareAndSwapUint32(addr, o, n)
}

func LoadInt32(addr *int32) int32 {
	vrt.LockPoint("atomic.Load")
	return realatomic.LoadInt32(addr)
}

func StoreInt32(addr *int32, v int32) {
	vrt.LockPoint("atomic.Store")
	realatomic.StoreInt32(addr, v)
}

func AddInt32(addr *int32, d int32) int32 {
	vrt.LockPoint("atomic.Add")
	return realatomic.AddInt32(addr, d)
}

func CompareAndSwapInt32(addr *int32, o, n int32) bool {
	vrt.LockPoint("atomic.CAS")
	return realatomic.CompareAndSwapInt32(addr, o, n)
}

func LoadInt64(addr *int64) int64 {
	vrt.LockPoint("atomic.Load")
	return realatomic.LoadInt64(addr)
}

func StoreInt64(addr *int64, v int64) {
	vrt.LockPoint("atomic.Store")
	realatomic.StoreInt64(addr, v)
}

func AddInt64(addr *int64, d int64) int64 {
	vrt.LockPoint("atomic.Add")
	return realatomic.AddInt64(addr, d)
}

func LoadUint64(addr *uint64) uint64 {
	vrt.LockPoint("atomic.Load")
	return realatomic.LoadUint64(addr)
}

func StoreUint64(addr *uint64, v uint64) {
	vrt.LockPoint("atomic.Store")
	realatomic.StoreUint64(addr, v)
}

func AddUint64(addr *uint64, d uint64) uint64 {
	vrt.LockPoint("atomic.Add")
	return realatomic.AddUint64(addr, d)
}
