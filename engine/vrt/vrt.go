// Package vrt is the runtime of the controlled scheduler. It is compiled
// into the *instrumented copy* of the packages under test through a
// `go build -overlay` virtual package; the sources in /repo never import it.
//
// With no active scheduler every entry point is a no-op (Point) or behaves
// like the primitive it replaces (Go, the vsync / vatomic shims), so the same
// instrumented build also runs free.
package vrt

import (
	"fmt"
	"runtime"
	"runtime/debug"
	"sort"
	"strings"
	"sync"
	"sync/atomic"
	"testing"
	"testing/synctest"
	"time"
)

// Kind classifies an alternative at a choice point.
type Kind uint8

const (
	KThread   Kind = iota // run a parked thread (scheduling)
	KSelect               // prefer a select case (scheduling)
	KDeliver              // deliver a packet / default environment step
	KTime                 // advance virtual time
	KFault                // environment fault: drop, dup, delay, inject ...
	KEnvSched             // environment scheduling deviation (e.g. spawn closer)
	KStall                // keep one parked thread off the processor for a while (scheduling)
)

func (k Kind) String() string {
	return [...]string{"thread", "select", "deliver", "time", "fault", "envsched", "stall"}[k]
}

// IsFault reports whether choosing a non-default alternative of this kind
// counts against the fault budget (otherwise the scheduling budget).
func (k Kind) IsFault() bool { return k == KFault }

const (
	stRunning int32 = iota
	stParked
	stFinished
)

// Thread is a goroutine known to the scheduler.
type Thread struct {
	ID        int
	Name      string
	SpawnSite string

	parent   *Thread
	spawnIdx int
	nkids    int

	state    atomic.Int32
	wake     chan int
	site     string
	prefN    int // >0 when parked at a select preference point
	lastTook int
	prefMiss bool
	op       string
	// stalledUntil: the thread is kept off the processor until that
	// virtual time (a KStall deviation); it is not listed as runnable.
	stalledUntil time.Duration
	// wasBlocked is set by the scheduler when it finds the thread blocked
	// in a real operation at a quiescent state; the next Woke call then
	// parks, so that a thread woken by another thread's operation or by a
	// timer does not run on concurrently with the thread that has the
	// token.
	wasBlocked atomic.Bool

	evMu   sync.Mutex
	events []string

	panicVal   any
	panicStack string
	daemon     bool
}

// Site returns where the thread is parked (valid at quiescence).
func (t *Thread) Site() string { return t.site }

// State returns "parked", "finished" or "blocked" (valid at quiescence).
func (t *Thread) State() string {
	switch t.state.Load() {
	case stParked:
		return "parked"
	case stFinished:
		return "finished"
	}
	return "blocked"
}

// Action is an environment action offered at a quiescent state.
type Action struct {
	Label   string
	Kind    Kind
	Default bool // may be the canonical (zero-cost) choice
	// OnlyIdle actions are offered only when no thread is parked (used
	// for faults on in-flight packets, which commute with thread steps).
	OnlyIdle bool
	Do       func()
}

// Alt describes one alternative of a recorded choice point.
type Alt struct {
	Kind Kind
	Site string
}

// PointRec is one recorded choice point.
type PointRec struct {
	Alts   []Alt
	Chosen int
	// Took is the select case taken (select preference points only).
	Took int
	// Miss is set when a preferred select case was not ready, i.e. the
	// alternative was ineffective.
	Miss bool
	At   time.Duration
}

// Config parameterises one execution.
type Config struct {
	Horizon    time.Duration // virtual time limit
	MaxSteps   int           // scheduler step cap
	LockPoints bool          // lock/atomic operations are scheduling points
	// NoStarve forbids advancing time while a thread is parked.
	NoStarve bool
	// StarveQuantum is how far virtual time moves when time is advanced
	// although threads are parked (all runnable threads are starved for
	// that long). Default 1s.
	StarveQuantum time.Duration
	// StallQuantum > 0 offers, for every parked thread, the deviation
	// "this thread does not get the processor for StallQuantum" (a slow
	// or descheduled goroutine) while everything else goes on. A plain
	// thread switch cannot express that: the preempted thread is the
	// default choice again as soon as the others block.
	StallQuantum time.Duration
	Trace        bool // keep the full trace text
	// DrainTime is how much virtual time the drain phase lets pass before
	// the leak oracle looks at what is still alive.
	DrainTime time.Duration
}

// Env is what a harness plugs into the scheduler.
type Env interface {
	// Actions lists the enabled environment actions, default-eligible
	// ones first, in a deterministic order.
	Actions() []Action
	// Quiescent is called at every quiescent state before choosing. It
	// returns true to end the execution (scenario complete or oracle
	// tripped).
	Quiescent(s *Sched) bool
}

// Exec is the result of one execution.
type Exec struct {
	Points         []PointRec
	Choices        []int
	Steps          int
	Hash           uint64
	Trace          []string
	End            string // "done", "horizon", "steps", "abort", "replay-divergence"
	Panics         []PanicRec
	Threads        []*Thread
	Elapsed        time.Duration // virtual time at the end
	Leftover       []string      // threads alive after the drain: "name@site"
	BubbleDeadlock bool
}

// PanicRec is a panic recovered at the top of a thread.
type PanicRec struct {
	Thread string
	Value  string
	Stack  string
}

// Sched is the controlled scheduler of one execution.
type Sched struct {
	cfg Config
	env Env

	mu      sync.Mutex
	threads []*Thread
	pending []*Thread
	byGid   sync.Map // goroutine id -> *Thread

	arrive chan struct{}
	start  time.Time

	prefix   []int
	exec     *Exec
	cur      *Thread
	free     atomic.Bool
	root     *Thread
	hash     uint64
	stop     bool
	diverged string
}

var active atomic.Pointer[Sched]

// lockPoints is read by the shims.
func lockPointsOn() bool {
	s := active.Load()
	return s != nil && s.cfg.LockPoints && !s.free.Load()
}

func goid() uint64 {
	var buf [40]byte
	n := runtime.Stack(buf[:], false)
	// "goroutine 123 ["
	var id uint64
	for i := 10; i < n; i++ {
		c := buf[i]
		if c < '0' || c > '9' {
			break
		}
		id = id*10 + uint64(c-'0')
	}
	return id
}

func (s *Sched) me() *Thread {
	if v, ok := s.byGid.Load(goid()); ok {
		return v.(*Thread)
	}
	return nil
}

// Now returns the virtual time elapsed since the execution started.
func (s *Sched) Now() time.Duration { return time.Since(s.start) }

// Threads returns the registered threads (valid at quiescence).
func (s *Sched) Threads() []*Thread { return s.threads }

// Poke wakes the scheduler if it is waiting for time to pass (used by
// environment timers, e.g. a packet that becomes deliverable).
func (s *Sched) Poke() {
	select {
	case s.arrive <- struct{}{}:
	default:
	}
}

// Stop ends the execution at the next quiescent state.
func (s *Sched) Stop() { s.stop = true }

// Point is a scheduling point: the calling thread parks until the scheduler
// grants it one step.
func Point(site string) {
	s := active.Load()
	if s == nil || s.free.Load() {
		return
	}
	t := s.me()
	if t == nil {
		return
	}
	t.park(s, site, 0)
}

// LockPoint is a scheduling point used by the lock and atomic shims; it is
// only active when the execution asked for lock points.
func LockPoint(op string) {
	s := active.Load()
	if s == nil || !s.cfg.LockPoints || s.free.Load() {
		return
	}
	t := s.me()
	if t == nil {
		return
	}
	t.park(s, callerSite(op), 0)
}

func callerSite(op string) string {
	// skip: callerSite, LockPoint, shim method -> caller in code under test
	_, file, line, ok := runtime.Caller(3)
	if !ok {
		return op
	}
	if i := strings.LastIndexByte(file, '/'); i >= 0 {
		file = file[i+1:]
	}
	return fmt.Sprintf("%s:%d:%s", file, line, op)
}

func (t *Thread) park(s *Sched, site string, prefN int) int {
	t.site = site
	t.prefN = prefN
	t.state.Store(stParked)
	select {
	case s.arrive <- struct{}{}:
	default:
	}
	v := <-t.wake
	return v
}

// Woke is placed right after every operation that can block. If the calling
// thread really was blocked there (the scheduler saw it blocked at a quiescent
// state), it parks: which of several threads woken at the same instant
// continues first is then the scheduler's decision, and at most one thread
// runs at any time.
func Woke(site string) {
	s := active.Load()
	if s == nil || s.free.Load() {
		return
	}
	t := s.me()
	if t == nil || !t.wasBlocked.Load() {
		return
	}
	t.wasBlocked.Store(false)
	t.park(s, "woke:"+site, 0)
}

// Pref is the scheduling point in front of a rewritten select with n
// communication cases. It returns the case the scheduler prefers, -1 for
// "none, probe in source order" (deterministic; used while an execution
// drains or runs free), or -2 when no scheduler exists at all (the
// conformance run of the repository's own tests): the rewritten select then
// behaves exactly like the original one, random choice included.
func Pref(site string, n int) int {
	s := active.Load()
	if s == nil {
		return -2
	}
	if s.free.Load() {
		return -1
	}
	t := s.me()
	if t == nil {
		return -1
	}
	return t.park(s, site, n)
}

// Took records which case a rewritten select took. pref is what Pref
// returned; probed is true when the case was taken by the preference probe.
func Took(site string, pref, k int, byPref bool) {
	s := active.Load()
	if s == nil || s.free.Load() {
		return
	}
	t := s.me()
	if t == nil {
		return
	}
	t.lastTook = k
	if pref >= 0 && !byPref {
		t.prefMiss = true
	}
	t.event(fmt.Sprintf("sel %s=%d", site, k))
}

// Event appends a line to the calling thread's trace buffer.
func Event(msg string) {
	s := active.Load()
	if s == nil {
		return
	}
	if t := s.me(); t != nil {
		t.event(msg)
	}
}

func (t *Thread) event(msg string) {
	t.evMu.Lock()
	t.events = append(t.events, msg)
	t.evMu.Unlock()
}

// Zero returns the zero value of a channel's element type; used by rewritten
// selects to declare temporaries without type information.
func Zero[T any](c <-chan T) (z T) { return }

// ZeroS is Zero for send-only / bidirectional operands where inference from
// <-chan T is not possible.
func ZeroS[T any](c chan<- T) (z T) { return }

// Go starts f as a new registered thread (or a plain goroutine when no
// scheduler is active).
func Go(site string, f func()) {
	s := active.Load()
	if s == nil {
		go f()
		return
	}
	parent := s.me()
	t := s.newThread(parent, site, site)
	go t.run(s, f)
}

func (s *Sched) newThread(parent *Thread, name, site string) *Thread {
	t := &Thread{Name: name, SpawnSite: site, parent: parent, wake: make(chan int)}
	t.ID = -1
	s.mu.Lock()
	if parent != nil {
		t.spawnIdx = parent.nkids
		parent.nkids++
	} else {
		t.spawnIdx = len(s.threads) + len(s.pending)
	}
	s.pending = append(s.pending, t)
	s.mu.Unlock()
	return t
}

func (t *Thread) run(s *Sched, f func()) {
	s.byGid.Store(goid(), t)
	defer func() {
		if r := recover(); r != nil {
			t.panicVal = r
			t.panicStack = string(debug.Stack())
		}
		t.state.Store(stFinished)
		s.byGid.Delete(goid())
		select {
		case s.arrive <- struct{}{}:
		default:
		}
	}()
	// Every thread starts parked, so that the scheduler decides when its
	// first step happens (except while draining).
	if !s.free.Load() {
		t.park(s, "start:"+t.SpawnSite, 0)
	}
	f()
}

// Spawn registers a harness thread. Must be called before Run starts
// scheduling or from a registered thread.
func (s *Sched) Spawn(name string, f func()) *Thread {
	parent := s.me()
	t := s.newThread(parent, name, name)
	go t.run(s, f)
	return t
}

// SpawnNow is Spawn for use by environment actions (called on the scheduler
// goroutine): the thread gets the next id immediately.
func (s *Sched) SpawnNow(name string, f func()) *Thread {
	t := s.newThread(nil, name, name)
	go t.run(s, f)
	// make it the current thread, so that the canonical policy runs it
	// next and keeps running it until it blocks
	s.cur = t
	return t
}

func fnv(h uint64, s string) uint64 {
	if h == 0 {
		h = 1469598103934665603
	}
	for i := 0; i < len(s); i++ {
		h ^= uint64(s[i])
		h *= 1099511628211
	}
	h ^= 0xff
	h *= 1099511628211
	return h
}

func (s *Sched) note(line string) {
	if !s.free.Load() {
		// the drain phase runs free and is not part of the schedule
		s.hash = fnv(s.hash, line)
	}
	if s.cfg.Trace {
		s.exec.Trace = append(s.exec.Trace, fmt.Sprintf("[%9.3fs] %s", s.Now().Seconds(), line))
	}
}

// Note lets the environment add a line to the trace (scheduler goroutine).
func (s *Sched) Note(line string) { s.note(line) }

// collect runs at quiescence: assigns ids to new threads, merges event
// buffers in thread-id order, gathers panics.
func (s *Sched) collect() {
	s.mu.Lock()
	if len(s.pending) > 0 {
		p := s.pending
		s.pending = nil
		sort.SliceStable(p, func(i, j int) bool {
			pi, pj := -1, -1
			if p[i].parent != nil {
				pi = p[i].parent.ID
			}
			if p[j].parent != nil {
				pj = p[j].parent.ID
			}
			if pi != pj {
				return pi < pj
			}
			return p[i].spawnIdx < p[j].spawnIdx
		})
		for _, t := range p {
			t.ID = len(s.threads)
			s.threads = append(s.threads, t)
			s.note(fmt.Sprintf("spawn T%d %s", t.ID, t.Name))
		}
	}
	s.mu.Unlock()
	for _, t := range s.threads {
		if t.state.Load() == stRunning {
			// not parked, not finished, and everything is durably
			// blocked: the thread is blocked in a real operation
			t.wasBlocked.Store(true)
		}
		t.evMu.Lock()
		evs := t.events
		t.events = nil
		t.evMu.Unlock()
		for _, e := range evs {
			s.note(fmt.Sprintf("T%d %s", t.ID, e))
		}
		if t.panicVal != nil {
			s.exec.Panics = append(s.exec.Panics, PanicRec{
				Thread: t.Name, Value: fmt.Sprint(t.panicVal), Stack: t.panicStack,
			})
			s.note(fmt.Sprintf("T%d PANIC %v", t.ID, t.panicVal))
			t.panicVal = nil
		}
	}
}

func (s *Sched) parked() []*Thread {
	var out []*Thread
	now := s.Now()
	if s.cur != nil && s.cur.state.Load() == stParked && s.cur.stalledUntil <= now {
		out = append(out, s.cur)
	}
	for _, t := range s.threads {
		if t != s.cur && t.state.Load() == stParked && t.stalledUntil <= now {
			out = append(out, t)
		}
	}
	return out
}

// next returns the choice for the next point with n alternatives.
func (s *Sched) next(n int) int {
	i := len(s.exec.Choices)
	c := 0
	if i < len(s.prefix) {
		c = s.prefix[i]
		if c >= n {
			s.diverged = fmt.Sprintf("replay divergence at point %d: choice %d of %d alternatives", i, c, n)
			c = 0
		}
	}
	s.exec.Choices = append(s.exec.Choices, c)
	return c
}

// Run executes one schedule inside a fresh bubble. setup runs inside the
// bubble on the scheduler goroutine and spawns the scenario's threads.
func Run(t *testing.T, cfg Config, prefix []int, mk func(s *Sched) Env) (x *Exec) {
	x = &Exec{}
	s := &Sched{cfg: cfg, prefix: prefix, exec: x}
	if cfg.MaxSteps == 0 {
		s.cfg.MaxSteps = 200000
	}
	defer func() {
		active.Store(nil)
		if r := recover(); r != nil {
			msg := fmt.Sprint(r)
			if strings.Contains(msg, "deadlock:") {
				x.BubbleDeadlock = true
				return
			}
			panic(r)
		}
	}()
	synctest.Test(t, func(t *testing.T) {
		// channels the scheduler blocks on must belong to the bubble
		s.arrive = make(chan struct{}, 1)
		s.start = time.Now()
		active.Store(s)
		s.env = mk(s)
		s.loop()
		s.finish()
	})
	return x
}

// IsFree reports whether the execution runs free (no scheduling).
func (s *Sched) IsFree() bool { return s.free.Load() }

// RunFree executes the scenario with the scheduler absent: threads are
// registered but never parked, goroutines run as the Go runtime schedules
// them (inside a bubble, so time is still virtual). Used by the auxiliary
// race-detector pass; nothing is enumerated here.
func RunFree(t *testing.T, cfg Config, mk func(s *Sched) Env) (x *Exec) {
	x = &Exec{}
	s := &Sched{cfg: cfg, exec: x}
	defer func() {
		active.Store(nil)
		if r := recover(); r != nil {
			if strings.Contains(fmt.Sprint(r), "deadlock:") {
				x.BubbleDeadlock = true
				return
			}
			panic(r)
		}
	}()
	synctest.Test(t, func(t *testing.T) {
		s.arrive = make(chan struct{}, 1)
		s.start = time.Now()
		s.free.Store(true)
		active.Store(s)
		s.env = mk(s)
		for s.Now() < cfg.Horizon {
			time.Sleep(50 * time.Millisecond)
			synctest.Wait()
			s.collect()
			if s.env.Quiescent(s) {
				break
			}
		}
		x.End = "free"
		s.finish()
	})
	return x
}

func (s *Sched) loop() {
	x := s.exec
	horizon := time.NewTimer(s.cfg.Horizon)
	defer horizon.Stop()
	for {
		synctest.Wait()
		s.collect()
		if s.diverged != "" {
			x.End = "replay-divergence: " + s.diverged
			return
		}
		if s.env.Quiescent(s) || s.stop {
			x.End = "done"
			return
		}
		if x.Steps >= s.cfg.MaxSteps {
			x.End = "steps"
			return
		}
		if s.Now() >= s.cfg.Horizon {
			x.End = "horizon"
			return
		}
		x.Steps++

		par := s.parked()
		acts := s.env.Actions()

		type alt struct {
			a     Alt
			th    *Thread
			act   *Action
			stall *Thread
		}
		var alts []alt
		for _, t := range par {
			alts = append(alts, alt{a: Alt{KThread, t.site}, th: t})
		}
		for i := range acts {
			if acts[i].Default {
				alts = append(alts, alt{a: Alt{acts[i].Kind, acts[i].Label}, act: &acts[i]})
			}
		}
		pendingDeliver := false
		for i := range acts {
			if acts[i].Default && acts[i].Kind == KDeliver {
				pendingDeliver = true
			}
		}
		isDelay := len(par) == 0 && pendingDeliver
		delayOK := true
		if d, ok := s.env.(interface{ DelayAllowed() bool }); ok && isDelay {
			delayOK = d.DelayAllowed()
		}
		if !(s.cfg.NoStarve && len(par) > 0) && delayOK {
			k := KTime
			if isDelay {
				// delaying a deliverable packet past the
				// next timer is a transport fault
				k = KFault
			}
			alts = append(alts, alt{a: Alt{k, "advance-time"}})
		}
		for i := range acts {
			if !acts[i].Default && !(acts[i].OnlyIdle && len(par) > 0) {
				alts = append(alts, alt{a: Alt{acts[i].Kind, acts[i].Label}, act: &acts[i]})
			}
		}
		if s.cfg.StallQuantum > 0 {
			for _, t := range par {
				alts = append(alts, alt{a: Alt{KStall, t.site}, stall: t})
			}
		}
		if len(alts) == 0 {
			x.End = "stuck"
			return
		}

		c := 0
		if len(alts) > 1 {
			c = s.next(len(alts))
			rec := PointRec{Chosen: c, At: s.Now(), Took: -1}
			rec.Alts = make([]Alt, len(alts))
			for i := range alts {
				rec.Alts[i] = alts[i].a
			}
			x.Points = append(x.Points, rec)
			if s.diverged != "" {
				continue
			}
		}
		ch := alts[c]
		switch {
		case ch.th != nil:
			t := ch.th
			pref := -1
			var prefRec = -1
			if t.prefN > 0 {
				// nested choice: which select case to prefer
				pc := s.next(t.prefN + 1)
				rec := PointRec{Chosen: pc, At: s.Now(), Took: -1}
				rec.Alts = make([]Alt, t.prefN+1)
				for i := range rec.Alts {
					rec.Alts[i] = Alt{KSelect, t.site}
				}
				x.Points = append(x.Points, rec)
				prefRec = len(x.Points) - 1
				pref = pc - 1
				if s.diverged != "" {
					continue
				}
			}
			s.note(fmt.Sprintf("run T%d @%s pref=%d", t.ID, t.site, pref))
			s.cur = t
			t.lastTook = -1
			t.prefMiss = false
			t.state.Store(stRunning)
			t.wake <- pref
			if prefRec >= 0 {
				synctest.Wait()
				x.Points[prefRec].Took = t.lastTook
				x.Points[prefRec].Miss = t.prefMiss
			}
		case ch.act != nil:
			s.note("env " + ch.act.Label)
			ch.act.Do()
		case ch.stall != nil:
			t := ch.stall
			t.stalledUntil = s.Now() + s.cfg.StallQuantum
			s.note(fmt.Sprintf("stall T%d @%s for %v", t.ID, t.site, s.cfg.StallQuantum))
			// wake the scheduler when the thread becomes runnable again
			time.AfterFunc(s.cfg.StallQuantum, s.Poke)
		default:
			if len(par) > 0 {
				// Starve every runnable thread for one quantum.
				q := s.cfg.StarveQuantum
				if q == 0 {
					q = time.Second
				}
				s.note("starve-all " + q.String())
				time.Sleep(q)
				continue
			}
			if isDelay {
				if d, ok := s.env.(interface{ OnDelay() }); ok {
					d.OnDelay()
				}
			}
			s.note("advance-time")
			// Block until a thread parks or finishes after a timer
			// fired, or the horizon passes.
			select {
			case <-s.arrive:
			default:
			}
			select {
			case <-s.arrive:
			case <-horizon.C:
				horizon.Reset(0)
			}
		}
	}
}

// finish drains the execution: from now on points are no-ops, parked threads
// are released, and virtual time is allowed to run so that everything that
// can finish does. What is still alive afterwards is reported.
func (s *Sched) finish() {
	x := s.exec
	if b, ok := s.env.(interface{ BeforeDrain(s *Sched) }); ok {
		b.BeforeDrain(s)
	}
	s.free.Store(true)
	for _, t := range s.threads {
		if t.state.Load() == stParked {
			t.state.Store(stRunning)
			t.wake <- -1
		}
	}
	if d, ok := s.env.(interface{ Drain(s *Sched) }); ok {
		d.Drain(s)
	}
	if s.cfg.DrainTime > 0 {
		time.Sleep(s.cfg.DrainTime)
	}
	synctest.Wait()
	// a last look at the system from inside the bubble (timers of the
	// system under test can only be observed from here)
	if d, ok := s.env.(interface{ AfterDrain(s *Sched) }); ok {
		d.AfterDrain(s)
		synctest.Wait()
	}
	s.collect()
	x.Elapsed = s.Now()
	x.Hash = s.hash
	x.Threads = s.threads
	for _, t := range s.threads {
		if t.state.Load() != stFinished && !t.daemon {
			x.Leftover = append(x.Leftover, t.Name+"@"+t.site)
		}
	}
}
