//go:build race

// In the binary of the auxiliary free-running race pass (built with -race,
// scheduler absent) the instrumented copy uses the real sync types again: the
// channel-based shims of vsync.go order more than the originals do (their
// internal mutex makes two readers of an RWMutex, or two WaitGroup.Add
// callers, happen-before one another), which would hide exactly the
// unsynchronised accesses this pass exists to find.
package vsync

import realsync "sync"

type (
	Locker    = realsync.Locker
	Pool      = realsync.Pool
	Map       = realsync.Map
	Mutex     = realsync.Mutex
	RWMutex   = realsync.RWMutex
	Once      = realsync.Once
	WaitGroup = realsync.WaitGroup
	Cond      = realsync.Cond
)

func NewCond(l Locker) *Cond { return realsync.NewCond(l) }
