//go:build !race

// Package vsync replaces "sync" in the instrumented copy. The types block on
// channels, so that a goroutine waiting for a lock is *durably* blocked in
// the sense of testing/synctest (a real sync.Mutex waiter is not), and every
// acquiring operation is an (optional) scheduling point.
package vsync

import (
	realsync "sync"

	"github.com/lightninglabs/lightning-node-connect/gbn/vrt"
)

// Locker mirrors sync.Locker.
type Locker = realsync.Locker

// Map is not used by the instrumented packages; alias it so that code that
// starts using it still compiles.
type Map = realsync.Map

// Pool mirrors sync.Pool deterministically: a LIFO free list that is never
// emptied by the garbage collector. Every Get that can be served from the
// list is (the behaviour of sync.Pool with one P and no collection in
// between - the one under which pooled objects are reused most); the real
// Pool's per-P caches and GC-driven clearing would make executions differ
// from run to run, which the determinism gate of the explorer rejects.
type Pool struct {
	New func() any

	mu    realsync.Mutex
	items []any
}

// Get takes the object put last, or calls New.
func (p *Pool) Get() any {
	p.mu.Lock()
	if n := len(p.items); n > 0 {
		x := p.items[n-1]
		p.items = p.items[:n-1]
		p.mu.Unlock()
		return x
	}
	p.mu.Unlock()
	if p.New != nil {
		return p.New()
	}
	return nil
}

// Put adds x to the free list.
func (p *Pool) Put(x any) {
	if x == nil {
		return
	}
	p.mu.Lock()
	p.items = append(p.items, x)
	p.mu.Unlock()
}

// Mutex is a channel-based mutual exclusion lock. The zero value is an
// unlocked mutex.
type Mutex struct {
	init realsync.Once
	ch   chan struct{}
}

func (m *Mutex) c() chan struct{} {
	m.init.Do(func() { m.ch = make(chan struct{}, 1) })
	return m.ch
}

func (m *Mutex) Lock() {
	vrt.LockPoint("Lock")
	m.c() <- struct{}{}
	vrt.Woke("Lock")
}

func (m *Mutex) TryLock() bool {
	select {
	case m.c() <- struct{}{}:
		return true
	default:
		return false
	}
}

func (m *Mutex) Unlock() {
	select {
	case <-m.c():
	default:
		panic("sync: unlock of unlocked mutex")
	}
}

// RWMutex shares readers and blocks new readers behind a waiting writer,
// like the original.
type RWMutex struct {
	mu       realsync.Mutex
	readers  int
	writer   bool
	waitingW int
	bcast    chan struct{}
}

func (rw *RWMutex) waitCh() chan struct{} {
	if rw.bcast == nil {
		rw.bcast = make(chan struct{})
	}
	return rw.bcast
}

func (rw *RWMutex) wakeAll() {
	if rw.bcast != nil {
		close(rw.bcast)
		rw.bcast = nil
	}
}

func (rw *RWMutex) RLock() {
	vrt.LockPoint("RLock")
	for {
		rw.mu.Lock()
		if !rw.writer && rw.waitingW == 0 {
			rw.readers++
			rw.mu.Unlock()
			vrt.Woke("RLock")
			return
		}
		ch := rw.waitCh()
		rw.mu.Unlock()
		<-ch
	}
}

func (rw *RWMutex) RUnlock() {
	rw.mu.Lock()
	if rw.readers <= 0 {
		rw.mu.Unlock()
		panic("sync: RUnlock of unlocked RWMutex")
	}
	rw.readers--
	if rw.readers == 0 {
		rw.wakeAll()
	}
	rw.mu.Unlock()
}

func (rw *RWMutex) Lock() {
	vrt.LockPoint("Lock")
	rw.mu.Lock()
	rw.waitingW++
	for rw.writer || rw.readers > 0 {
		ch := rw.waitCh()
		rw.mu.Unlock()
		<-ch
		rw.mu.Lock()
	}
	rw.waitingW--
	rw.writer = true
	rw.mu.Unlock()
	vrt.Woke("Lock")
}

func (rw *RWMutex) Unlock() {
	rw.mu.Lock()
	if !rw.writer {
		rw.mu.Unlock()
		panic("sync: Unlock of unlocked RWMutex")
	}
	rw.writer = false
	rw.wakeAll()
	rw.mu.Unlock()
}

func (rw *RWMutex) RLocker() Locker { return (*rlocker)(rw) }

type rlocker RWMutex

func (r *rlocker) Lock()   { (*RWMutex)(r).RLock() }
func (r *rlocker) Unlock() { (*RWMutex)(r).RUnlock() }

// Once blocks late callers until the first call has finished, like the
// original.
type Once struct {
	m    Mutex
	done bool
}

func (o *Once) Do(f func()) {
	vrt.LockPoint("Once.Do")
	o.m.c() <- struct{}{}
	vrt.Woke("Once.Do")
	defer func() { <-o.m.c() }()
	if !o.done {
		defer func() { o.done = true }()
		f()
	}
}

// WaitGroup waits on a channel that is closed when the counter reaches zero.
type WaitGroup struct {
	mu   realsync.Mutex
	n    int
	done chan struct{}
}

func (wg *WaitGroup) Add(delta int) {
	wg.mu.Lock()
	defer wg.mu.Unlock()
	wg.n += delta
	if wg.n < 0 {
		panic("sync: negative WaitGroup counter")
	}
	if wg.n == 0 && wg.done != nil {
		close(wg.done)
		wg.done = nil
	}
}

func (wg *WaitGroup) Done() { wg.Add(-1) }

func (wg *WaitGroup) Go(f func()) {
	wg.Add(1)
	vrt.Go("WaitGroup.Go", func() {
		defer wg.Done()
		f()
	})
}

func (wg *WaitGroup) Wait() {
	vrt.Point("WaitGroup.Wait")
	wg.mu.Lock()
	if wg.n == 0 {
		wg.mu.Unlock()
		return
	}
	if wg.done == nil {
		wg.done = make(chan struct{})
	}
	ch := wg.done
	wg.mu.Unlock()
	<-ch
	vrt.Woke("WaitGroup.Wait")
}
