// evmerge combines the partial evidence files written by the sub-harnesses
// of a composite check into evidence/<id>.json.
package main

import (
	"encoding/json"
	"fmt"
	"os"
	"path/filepath"
	"sort"
	"strings"
)

func main() {
	if len(os.Args) < 3 {
		fmt.Fprintln(os.Stderr, "usage: evmerge <root> <id>")
		os.Exit(2)
	}
	root, id := os.Args[1], os.Args[2]
	files, _ := filepath.Glob(filepath.Join(root, ".work", "parts", id+".*.json"))
	sort.Strings(files)
	if len(files) == 0 {
		fmt.Fprintln(os.Stderr, "FRAMEWORK ERROR: evmerge: no parts for", id)
		os.Exit(2)
	}
	var (
		level, tier           string
		seed                  float64
		wall                  float64
		viol                  float64
		assumptions           []string
		seenA                 = map[string]bool{}
		cov                   = map[string]any{}
		samples               []any
		exhaustive            = true
		evals, distinct       float64
		states, trans, traces float64
		rules, known, capped  []string
		hasStates             bool
	)
	for _, f := range files {
		b, err := os.ReadFile(f)
		if err != nil {
			fmt.Fprintln(os.Stderr, "FRAMEWORK ERROR: evmerge:", err)
			os.Exit(2)
		}
		var d map[string]any
		if err := json.Unmarshal(b, &d); err != nil {
			fmt.Fprintln(os.Stderr, "FRAMEWORK ERROR: evmerge:", f, err)
			os.Exit(2)
		}
		part := strings.TrimSuffix(strings.TrimPrefix(filepath.Base(f), id+"."), ".json")
		if l, _ := d["level"].(string); level == "" || l == "model_checking" {
			level = l
		}
		tier, _ = d["tier"].(string)
		seed, _ = d["seed"].(float64)
		w, _ := d["wall_s"].(float64)
		wall += w
		v, _ := d["violations"].(float64)
		viol += v
		if as, ok := d["assumptions"].([]any); ok {
			for _, a := range as {
				if s, _ := a.(string); s != "" && !seenA[s] {
					seenA[s] = true
					assumptions = append(assumptions, s)
				}
			}
		}
		c, _ := d["coverage"].(map[string]any)
		sub := map[string]any{}
		for k, val := range c {
			switch k {
			case "samples":
				if l, ok := val.([]any); ok {
					for _, s := range l {
						samples = append(samples, map[string]any{"part": part, "case": s})
					}
				}
			case "exhaustive":
				if b, ok := val.(bool); ok && !b {
					exhaustive = false
				}
				sub[k] = val
			case "evaluations":
				n, _ := val.(float64)
				evals += n
				sub[k] = val
			case "distinct_nontrivial":
				n, _ := val.(float64)
				distinct += n
				sub[k] = val
			case "states":
				n, _ := val.(float64)
				states += n
				hasStates = true
				sub[k] = val
			case "transitions":
				n, _ := val.(float64)
				trans += n
				sub[k] = val
			case "traces_validated_against_impl":
				n, _ := val.(float64)
				traces += n
				sub[k] = val
			case "rule":
				if s, _ := val.(string); s != "" {
					rules = append(rules, part+": "+s)
				}
			case "known_findings_observed":
				if l, ok := val.([]any); ok {
					for _, s := range l {
						known = append(known, fmt.Sprint(s))
					}
				}
			case "capped":
				if l, ok := val.([]any); ok {
					for _, s := range l {
						capped = append(capped, part+": "+fmt.Sprint(s))
					}
				}
			default:
				sub[k] = val
			}
		}
		cov["part_"+part] = sub
	}
	if len(samples) == 0 {
		samples = []any{"(none recorded)"}
	}
	cov["samples"] = samples
	cov["exhaustive"] = exhaustive
	cov["evaluations"] = int64(evals)
	cov["distinct_nontrivial"] = int64(distinct)
	if hasStates {
		cov["states"] = int64(states)
		cov["transitions"] = int64(trans)
		cov["traces_validated_against_impl"] = int64(traces)
	}
	cov["rule"] = strings.Join(rules, " || ")
	if known == nil {
		known = []string{}
	}
	cov["known_findings_observed"] = known
	if len(capped) > 0 {
		cov["capped"] = capped
	}
	if assumptions == nil {
		assumptions = []string{}
	}
	doc := map[string]any{
		"property_id": id, "tier": tier, "seed": int64(seed), "level": level,
		"coverage": cov, "assumptions": assumptions, "wall_s": wall,
		"violations": int64(viol),
	}
	b, _ := json.MarshalIndent(doc, "", " ")
	if err := os.WriteFile(filepath.Join(root, "evidence", id+".json"), append(b, '\n'), 0o644); err != nil {
		fmt.Fprintln(os.Stderr, "FRAMEWORK ERROR: evmerge:", err)
		os.Exit(2)
	}
	fmt.Printf("RESULT property=%s tier=%s parts=%d violations=%d\n", id, tier, len(files), int64(viol))
}
