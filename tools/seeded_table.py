#!/usr/bin/env python3
"""Builds seeded/RESULTS.md from the row files written by tools/runseeded*.sh
(the latest row per seeded change wins) and prints the table."""
import glob, json, os, re, sys
ROOT = os.path.dirname(os.path.dirname(os.path.abspath(__file__)))
rows = {}
# base: the rows of the table as committed (results of earlier runs whose row
# files are gone, e.g. after a restore of the sandbox); row files override them
_res = os.path.join(ROOT, "seeded", "RESULTS.md")
if os.path.isfile(_res):
    for line in open(_res):
        c = [x.strip() for x in line.strip().strip("|").split("|")]
        if len(c) >= 4 and re.match(r"C\d\d-", c[0]) and "(not run yet)" not in c[3]:
            rows[c[0]] = re.sub(r" — see note in meta.json$", "", c[3])
files = sorted(glob.glob(os.path.join(ROOT, ".work/seeded-run/rows*")), key=os.path.getmtime)
for f in files:
    for line in open(f):
        m = re.match(r"\| (\S+) \|(.*)", line.strip())
        if m:
            rows[m.group(1)] = m.group(2).strip()
out = ["| seeded change | property | needs | result of the listed quick checks |", "|---|---|---|---|"]
caught = missed = 0
for name in sorted(os.listdir(os.path.join(ROOT, "seeded"))):
    d = os.path.join(ROOT, "seeded", name)
    if not os.path.isfile(os.path.join(d, "meta.json")):
        continue
    meta = json.load(open(os.path.join(d, "meta.json")))
    res = rows.get(name, "(not run yet)")
    prim = meta["property"]
    ok = re.search(r"%s: \*\*caught\*\*" % prim, res) is not None
    anyc = "**caught**" in res
    caught += 1 if anyc else 0
    missed += 0 if anyc else 1
    if meta.get("status") == "superseded":
        res = "(superseded: " + "no longer breaks the property since fix faa9391, see meta.json" + ")"
    elif meta.get("note") and not ok:
        res += " — see note in meta.json"
    out.append("| %s | %s | %s | %s |" % (name, prim, meta.get("needs_to_manifest", "").replace("|", "/"), res))
out.append("")
out.append("%d seeded changes; %d caught by at least one listed check, %d not caught." % (caught + missed, caught, missed))
txt = "\n".join(out) + "\n"
open(os.path.join(ROOT, "seeded", "RESULTS.md"), "w").write(txt)
# the same table goes into DESIGN.md section 6, between the markers
dp = os.path.join(ROOT, "DESIGN.md")
d = open(dp).read()
b, e = "<!-- SEEDED-TABLE-BEGIN -->", "<!-- SEEDED-TABLE-END -->"
if b in d and e in d:
    d = d[:d.index(b) + len(b)] + "\n" + txt + d[d.index(e):]
    open(dp, "w").write(d)
print(txt)
