#!/bin/bash
# Applies each seeded change to /repo, runs the checks named in its meta.json
# (quick tier), records which of them raise a VIOLATION, and undoes the change.
#   tools/runseeded.sh [name ...]      (default: all of /verif/seeded/*/)
set -u
ROOT="$(cd "$(dirname "$0")/.." && pwd)"
cd "$ROOT" || exit 2
if [ -n "$(git -C /repo status --porcelain --untracked-files=no)" ]; then
	echo "refusing to run: /repo has uncommitted changes to tracked files" >&2
	exit 2
fi
names=("$@")
if [ ${#names[@]} -eq 0 ]; then
	for d in seeded/*/; do names+=("$(basename "$d")"); done
fi
out="$ROOT/seeded/RESULTS.md"
tmp="$ROOT/.work/seeded-run"
mkdir -p "$tmp"
for n in "${names[@]}"; do
	d="$ROOT/seeded/$n"
	[ -f "$d/patch.diff" ] || { echo "skip $n (no patch.diff)"; continue; }
	checks=$(python3 -c "import json,sys; print(' '.join(json.load(open(sys.argv[1]))['checks']))" "$d/meta.json")
	if ! git -C /repo apply --check "$d/patch.diff" 2>/dev/null; then
		echo "| $n | patch does not apply to the current tree | |" | tee -a "$tmp/rows"
		continue
	fi
	git -C /repo apply "$d/patch.diff"
	row="| $n |"
	for c in $checks; do
		log="$tmp/$n.$c.log"
		./verif check "$c" quick > "$log" 2>&1
		rc=$?
		if grep -q "^VIOLATION property=$c" "$log"; then
			key=$(grep -m1 "^  key=" "$log" | sed 's/^  key=//')
			row="$row $c: **caught** (exit $rc, \`$key\`);"
		elif [ $rc -eq 2 ]; then
			row="$row $c: framework error (exit 2);"
		else
			row="$row $c: missed (exit $rc);"
		fi
	done
	git -C /repo checkout -- .
	echo "$row" | tee -a "$tmp/rows"
done
git -C /repo status --porcelain --untracked-files=no
