#!/bin/bash
# Confirms a property-breaking change delivered by a sub-agent in a scratch
# worktree (never in /repo) and, if confirmed, stores it under /verif/seeded/.
#   tools/confirm_mutant.sh <out-dir> <i> <seeded-name> <property> "<checks>" "<needs>"
set -u
OUT="$1"; I="$2"; NAME="$3"; PROP="$4"; CHECKS="$5"; NEEDS="${6:-}"
ROOT="$(cd "$(dirname "$0")/.." && pwd)"
WT=/tmp/confirm-wt
PATCH="$OUT/mutant$I.diff"; DEMO="$OUT/demo${I}_test.go"
[ -f "$PATCH" ] && [ -f "$DEMO" ] || { echo "missing $PATCH or $DEMO"; exit 2; }
if [ ! -d "$WT" ]; then git -C /repo worktree add -q --detach "$WT" HEAD || exit 2; fi
git -C "$WT" checkout -q --detach "$(git -C /repo rev-parse HEAD)" && git -C "$WT" checkout -q -- . && git -C "$WT" clean -fdq
pkg=$(grep -m1 '^package ' "$DEMO" | awk '{print $2}')
case "$pkg" in gbn|gbn_test) dir=gbn;; mailbox|mailbox_test) dir=mailbox;; *) echo "unknown demo package $pkg"; exit 2;; esac
tname=$(grep -o '^func Test[A-Za-z0-9_]*' "$DEMO" | sed 's/func //' | paste -sd'|')
run() { (cd "$WT/$1" && GOFLAGS=-mod=mod GOPROXY=off go test -count=1 -timeout 15m "${@:2}" ./... 2>&1); }
cp "$DEMO" "$WT/$dir/zz_demo_test.go"
echo "== demo without the change (must pass)"
run "$dir" -run "^($tname)\$" > /tmp/confirm-clean.log; rc_clean=$?
tail -3 /tmp/confirm-clean.log
git -C "$WT" apply "$PATCH" || { echo "patch does not apply"; exit 2; }
echo "== demo with the change (must fail)"
run "$dir" -run "^($tname)\$" > /tmp/confirm-mut.log; rc_mut=$?
tail -5 /tmp/confirm-mut.log | cut -c1-200
rm -f "$WT/$dir/zz_demo_test.go"
echo "== existing suites with the change (must pass)"
run gbn > /tmp/confirm-gbn.log; rc_g=$?; tail -1 /tmp/confirm-gbn.log
if [ $rc_g -ne 0 ]; then echo "(retrying gbn suite once: it has wall-clock tests)"; run gbn > /tmp/confirm-gbn.log; rc_g=$?; tail -1 /tmp/confirm-gbn.log; fi
run mailbox > /tmp/confirm-mb.log; rc_m=$?; tail -1 /tmp/confirm-mb.log
git -C "$WT" checkout -q -- . ; git -C "$WT" clean -fdq
echo "clean=$rc_clean mutated=$rc_mut gbn=$rc_g mailbox=$rc_m"
if [ $rc_clean -eq 0 ] && [ $rc_mut -ne 0 ] && [ $rc_g -eq 0 ] && [ $rc_m -eq 0 ]; then
	d="$ROOT/seeded/$NAME"; mkdir -p "$d"
	cp "$PATCH" "$d/patch.diff"; cp "$DEMO" "$d/demo_test.go"
	[ -f "$OUT/README.md" ] && cp "$OUT/README.md" "$d/AGENT_README.md"
	python3 - "$d/meta.json" "$PROP" "$CHECKS" "$NEEDS" "$dir" "$tname" <<'PY'
import json,sys
path,prop,checks,needs,dir_,tname=sys.argv[1:7]
json.dump({"property":prop,"checks":checks.split(),"needs_to_manifest":needs,
 "demo":{"place_in":dir_+"/","tests":tname},
 "confirmed":{"existing_suites_pass_with_change":True,"demo_fails_with_change":True,"demo_passes_without_change":True,
  "how":"tools/confirm_mutant.sh in a scratch worktree of /repo HEAD (go test of gbn/ and mailbox/, demo placed in "+dir_+"/)"},
 "origin":"independent sub-agent given only the property text and a scratch worktree"},open(path,"w"),indent=1)
PY
	echo "CONFIRMED -> $d"
else
	echo "NOT CONFIRMED"
	exit 1
fi
