#!/bin/bash
# Evaluates seeded changes on scratch COPIES of /repo and /verif, several at a
# time, so that /repo itself stays untouched and usable meanwhile. The
# prescribed procedure (apply to /repo, run, undo) is tools/runseeded.sh; both
# run the same machinery.
#   tools/runseeded_par.sh [-j N] [name ...]
set -u
ROOT="$(cd "$(dirname "$0")/.." && pwd)"
J=3
if [ "${1:-}" = "-j" ]; then J="$2"; shift 2; fi
names=("$@")
if [ ${#names[@]} -eq 0 ]; then
	for d in "$ROOT"/seeded/*/; do names+=("$(basename "$d")"); done
fi
PAR=/tmp/par
mkdir -p "$PAR"
rows="$ROOT/.work/seeded-run/rows-par"
mkdir -p "$(dirname "$rows")"
one() {
	local n="$1" d="$ROOT/seeded/$1" p="$PAR/$1"
	[ -f "$d/patch.diff" ] || return
	rm -rf "$p"; mkdir -p "$p"
	cp -a /repo "$p/repo"
	git -C "$p/repo" checkout -q -- . 2>/dev/null
	rsync -a --exclude .work --exclude .git --exclude evidence --exclude replays "$ROOT/" "$p/verif/"
	if ! git -C "$p/repo" apply "$d/patch.diff" 2>/dev/null; then
		echo "| $n | patch does not apply | |" >> "$rows"; rm -rf "$p"; return
	fi
	local checks row="| $n |"
	# SEEDED_PRIMARY_ONLY=1: only the check of the property the change was
	# made against (when it is among the listed checks, else the first one)
	checks=$(python3 -c "
import json,sys,os
m=json.load(open(sys.argv[1])); c=m['checks']
if os.environ.get('SEEDED_PRIMARY_ONLY') and c:
    c=[m['property']] if m['property'] in c else c[:1]
print(' '.join(c))" "$d/meta.json")
	for c in $checks; do
		local log="$ROOT/.work/seeded-run/$n.$c.par.log"
		( cd "$p/verif" && VERIF_REPO="$p/repo" ./verif check "$c" quick ) > "$log" 2>&1
		local rc=$?
		if grep -q "^VIOLATION property=$c" "$log"; then
			local key; key=$(grep -m1 "^  key=" "$log" | sed 's/^  key=//')
			row="$row $c: **caught** (exit $rc, \`$key\`);"
		elif [ $rc -eq 2 ]; then
			row="$row $c: framework error (exit 2);"
		else
			row="$row $c: missed (exit $rc);"
		fi
	done
	echo "$row" >> "$rows"
	echo "$row"
	rm -rf "$p"
}
running=0
for n in "${names[@]}"; do
	one "$n" &
	running=$((running+1))
	if [ $running -ge $J ]; then wait -n; running=$((running-1)); fi
done
wait
