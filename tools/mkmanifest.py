#!/usr/bin/env python3
"""Regenerates /verif/MANIFEST.json from the table below and validates it."""
import json, os, subprocess, sys

ROOT = os.path.dirname(os.path.dirname(os.path.abspath(__file__)))

E1 = "gbnmc"
E2 = "seqmc"
E3 = "stackmc"

MC = "model_checking"
EX = "exploration"
FE = "fault_enumeration"

NOTE_E1 = ("Exhaustive within the stated deviation bounds of the listed scenarios, on an instrumented copy of /repo's "
           "current gbn sources (scheduling points inserted by vrewrite through a build overlay; the copy passes the "
           "package's own tests with the scheduler absent). Steps between two scheduling points are atomic (exact for "
           "race-free code). Which waiter the runtime wakes on one channel and the firing order of equal-deadline "
           "runtime timers are fixed, not enumerated. Built with go1.26.8 for testing/synctest (virtual time).")

# id -> dict(built, engine, level, technique, text, note, design)
CHECKS = {
    "C01": dict(built=True, engine=E1, level=MC, design="4/C01",
        technique="stateless model checking: deviation-bounded DFS over schedules and transport faults of the real goroutine code under a controlled scheduler (synctest bubble); plus exhaustive window arithmetic for every sequence-space size",
        text="Every execution of the uni/bidi/burst/chunked scenarios, of a late sender after handshake faults and of a late receiver, with at most the listed numbers of scheduling deviations and transport faults (drop, in-order dup, delay, a transient write error of the transport), is run on the real code and the prefix oracle (Recv results are a prefix of Send-accepted payloads, byte-equal, both directions) is evaluated at every quiescent state. The window arithmetic that depends on N is enumerated for every sequence space s=2..255; the thorough tier runs windows above 128 on the live connection with one fault at every point.",
        note=NOTE_E1),
    "C05": dict(built=True, engine=E3, level=MC, design="4/C05",
        technique="stateless model checking of the composed stack (mailbox Server/Client, ServerConn/ClientConn, GBN, Noise) over an in-memory hashmail relay: deviation-bounded DFS over schedules and relay faults (message drop, delay, stream kill)",
        text="Every execution within budget of full paired sessions (Server.Accept + Client.Dial, both GBN handshakes, both Noise handshakes on one NoiseGrpcConn per side as gRPC uses it, writes of 1..65535 bytes both ways read with gRPC-sized and mixed buffers, application-level final ack, hang-up) on the instrumented real code over a fake relay that follows aperture's stream semantics, with drop / delay / stream-kill faults and a relay restart, downtime or lossy period at any idle point, and applications that abandon a session mid-record or do not reconnect: at every quiescent state the bytes a session has read are a prefix of what the peer writes, no message the relay ever saw contains an 8-byte plaintext or auth-payload window, and at the end (100 s after the last fault) no session is left stalled without a call having reported an error before the harness shut down.",
        note=NOTE_E1 + " The relay model (one reader/writer per stream, FIFO, rejected first message lost, release when the holder's context is done) is taken from aperture v0.3.11; its rate limiter and pipe back-pressure are represented by the delay fault only. The websocket transport is not driven."),
    "C11": dict(built=True, engine=E3, level=MC, design="4/C11",
        technique="stateless model checking of consecutive sessions through Server.Accept / Client.Dial over the fake relay, with the close-by-client / close-by-server / relay-failure events placed by the scheduler and an unpaired intruder client",
        text="Two or three consecutive sessions with re-entering accept and dial loops over one NoiseGrpcConn per side: a connection is never handed out while the previous one of that side is open, nor (without relay faults) while neither application has begun to close it or while the application's Close is still running, and no call fails on a connection nobody has begun to close; after a close or a relay fault (kill, restart, downtime) that interrupted an owed session both sides get a working connection again; a side stores the peer's key only in a handshake it completes; after a version-2 pairing every later handshake really runs KK on the new key-derived stream ids, the same on both sides; a different client with only the original passphrase never completes a handshake and never receives the auth payload. A job in which one thread is kept off the processor for 2 s at any point (inside Close, Dial, Accept) is judged on the timing-independent oracles (stream prefix, previous connection's Done, intruder, ciphertext only).",
        note=NOTE_E1 + " The intruder is started after the first (pairing) session has ended."),
    "C06": dict(built=True, engine=E1, level=MC, design="4/C06",
        technique="stateless model checking of the real goroutine code: every execution with bounded fault prefixes (drop/dup/delay after a clean handshake) and scheduling deviations, virtual time to a 150 s horizon, progress/quiet oracles",
        text="All executions of the uni/bidi/adaptive/keepalive/asymmetric-timeout/late-receiver/streaming-peer traffic scenarios within the listed deviation budgets are run to a horizon far beyond any recovery time; at the end every accepted message must have been delivered (keepalive off: no endpoint may have closed), no Send may have been blocked for a minute on a healthy open connection whose peer waits in Recv, no call may hang after a self-closure, under a streaming peer a message is delivered within 10 s of the last fault, and once everything is acknowledged retransmission stops.",
        note=NOTE_E1 + " Goroutines are not starved (virtual time only advances when no thread can run). Lasso detection is replaced by the long horizon."),
    "C07": dict(built=True, engine=E1 + "+" + E2, level=MC, design="4/C07",
        technique="bounded-exhaustive decoder input enumeration (all byte strings <= 3 bytes, 4 bytes by tier) plus model checking of live endpoints with one hostile packet injected at every quiescent point, all 256 SYN window bytes, and bounded-exhaustive truncation/substitution of Noise handshake acts and records",
        text="Composite: (decoders) every short byte string through gbn.Deserialize, MsgData.Deserialize and the websocket JSON envelope; (live) a hostile packet alphabet injected into either direction at every idle point of a running connection and a raw client proposing every window byte 0..255, with panic and window-invariant oracles at every quiescent state; (noise) every truncation / zero / 0xff / cross-session substitution of each handshake act and of transport records.",
        note=NOTE_E1 + " Longer random byte strings are not enumerated."),
    "C09": dict(built=True, engine=E1, level=MC, design="4/C09",
        technique="stateless model checking of the real goroutine code with ACKs held in flight; white-box window invariants and a black-box outstanding-packet model evaluated at every quiescent state; exhaustive window arithmetic for every s",
        text="fullwindow scenarios (N=1,2,3 under the deviation ladder, N=20/254 canonical), plain lossy traffic, keepalive pings taking the last slot, and every proposed window byte: first N Sends return without virtual time passing, Send N+1 stays blocked while no acknowledgement has been delivered, size<=n, base/top<s, s=n+1 on both endpoints, and first transmissions minus acknowledged (unbounded-integer model fed from the wire log; an acknowledgement counts from its delivery but may take effect later) <= N at every state.",
        note=NOTE_E1),
    "C10": dict(built=True, engine=E1, level=MC, design="4/C10",
        technique="stateless model checking of client and server handshakes: all drop/dup/delay patterns within budget over handshake packets, every stale-packet prefix of length <= 2 in either direction, both start orders, all 256 proposed window bytes through a raw client",
        text="At every quiescent state a server in the data phase has 1<=n<=254 and, when both ends are in the data phase, both use the window the client proposed; at the end (30+ s after the last fault) neither 'one side in the data phase, the other silently handshaking' nor 'both still handshaking with no error anywhere' may hold; the canonical clean run must connect and pass a message each way.",
        note=NOTE_E1 + " A connection torn down visibly by a late duplicate SYN counts as 'fails visibly' (allowed by the statement)."),
    "C12": dict(built=True, engine=E1, level=MC, design="4/C12",
        technique="stateless model checking with closer threads / context cancellation injected at every scheduling point (also twice per side and on both sides), drain phase in virtual time, leak oracle over the scheduler's thread table",
        text="Close (and a second Close, and later Send/Recv) is injected at every choice point of the traffic, stalled-link, blocked-transport and never-reading-application scenarios, also twice per side; oracles: every Close returns within 1.5 s virtual, when any Close call returns no call of the connection into its transport is in progress and none starts later, calls started after it fail, blocked calls return, the peer's calls fail when the transport works, and 30 s after both ends are closed no goroutine spawned by the connection is alive; an endpoint that closes itself by keepalive timeout while its sending direction works tells the peer (one-directional blackhole at every point).",
        note=NOTE_E1),
    "C13": dict(built=True, engine=E1, level=MC, design="4/C13",
        technique="stateless model checking with a blackhole fault placed at every scheduling point (idle, sending, full window) and fixed-latency healthy links; virtual time",
        text="Dead peer: after the transport goes silent at any point (idle, sending, full window, ping below and above pong, a paced sender with a large window), every endpoint with keepalive must have closed by blackhole + ping + pong + 12 s and its calls must fail. Live peer: with one-way latency 0, pong/4 and just under pong/2 over 45 s idle, no endpoint may close, under every single scheduling deviation; on a lossy link (up to two drops) an endpoint never closes by keepalive when a packet of the peer reached it inside the pong timeout that had to expire; with only one direction silent the side that hears nothing gives up and the other end closes too.",
        note=NOTE_E1),
    "C14": dict(built=True, engine=E1, level=MC, design="4/C14",
        technique="exhaustive product of chunk sizes x message-length sequences on the canonical schedule plus deviation-bounded model checking with faults and with receive/send deadlines expiring inside a message",
        text="Every (maxChunkSize 0..4) x (sequence of up to 2 (quick) / 3 (thorough) messages of length 0..8 / 0..12) is run on the real connection; selected sequences under the deviation ladder; a receiver that starts late; deadlines that expire between chunks with the timed-out call retried. Oracle: Recv results equal Send-accepted payloads element- and byte-wise.",
        note=NOTE_E1),
    "C18": dict(built=True, engine=E1, level=MC, design="4/C18",
        technique="stateless model checking with every lock/atomic/Once/WaitGroup operation as a scheduling point (deciding step; a free-running -race pass of the same scenario bodies is auxiliary): unit seams (two threads on one ticker, three on one timeout manager) and the whole connection with API calls from several goroutines and traffic timed onto timer expiries; panic and deadlock oracles",
        text="All interleavings within budget of the ticker, timeout-manager and send-queue seams and of a keepalive connection whose peer traffic arrives at the instant of the ping tick (and one quantum either side), every lock/atomic/Once/WaitGroup operation being a scheduling point: no recovered panic in any thread, no thread left waiting for a lock/Once/WaitGroup after the drain. Auxiliary part: the same bodies plus lossy and looped scenarios run free under the race detector with the real sync types.",
        note=NOTE_E1 + " Data races proper are not decided by the exhaustive step (the cooperative scheduler's hand-offs hide them from the race detector); they are looked for by a separate free-running -race pass reported as auxiliary evidence."),
    "C02": dict(built=True, engine=E2, level=FE, design="4/C02",
        technique="bounded-exhaustive enumeration of adversarial edit scripts over the ciphertext record stream (every single-bit flip of every record; drop/dup/swap/replay/reflect/inject/truncate at every position) replayed against the real Machine / NoiseConn after a real handshake",
        text="After a real XX (v0, v2) or KK handshake, streams of records (sizes 0,1,2,5; equal plaintexts and header-sized bodies included; long streams across key rotations) are written by the real machine, edited by the man in the middle and read by the real peer through Machine.ReadMessage, NoiseConn.ReadNextMessage and the two-step ReadNextHeader/ReadNextBody API by a reader that carries on after errors: everything it is ever handed, concatenated, must be a prefix of what was written, no record that differs on the wire may be accepted before the first error, and every deviation must surface as an error.",
        note="Cryptographic strength of ChaCha20-Poly1305 is trusted. The reader model stops at the first read error; that later genuine records would still decrypt for a reader that ignores errors is reported as an informational count. Multi-edit scripts beyond ordered pairs are not enumerated."),
    "C03": dict(built=True, engine=E2, level=EX, design="4/C03",
        technique="bounded-exhaustive enumeration of secret / key mismatches (every single-bit difference of the 112-bit secret, all expected-key mismatches over 4 static keys) on the real handshake over an in-memory duplex that logs every byte the responder writes",
        text="For every enumerated mismatch both DoHandshake calls must fail, the responder's write log must be empty at that moment (so the auth payload never left it), neither machine may hold traffic keys, ConnData and callbacks must be untouched; matching secrets/keys must complete (non-vacuity). Histories in one process with a party's passphrase buffer rewritten in place between handshakes: the current phrase pairs, the previous one is rejected. 8 cases run at the real scrypt cost.",
        note="scrypt cost lowered to N=16 for bulk cases (package variable behind a verif-tag setter); static keys from a fixed list; secp256k1/scrypt strength trusted."),
    "C04": dict(built=True, engine=E2, level=FE, design="4/C04",
        technique="bounded-exhaustive enumeration of handshake configurations and man-in-the-middle rewrites (all 162 version-range x pattern configurations; every combination of version-byte substitutions; every single-bit flip of every act byte) on the real Machine",
        text="Whenever both real DoHandshake calls complete, the views (version within both ranges, complementary keys, peer static keys, stored key, auth payload byte-for-byte) must agree; untampered compatible configurations must complete; a reconnect on the same ConnData with a changed auth payload leaves the initiator holding exactly the new one; a party whose handshake failed because the transport broke at one of its act writes holds no keys, no stored peer key, no auth payload; in histories of two handshakes in one process (every ordered pair of payload sizes on both sides of 64 KiB) the later handshake does not change what the parties of the earlier one hold.",
        note="scrypt cost lowered; payload sizes {0,1,498,499,600,65535,65536,(2MiB)}; bit flips on representative configurations only."),
    "C08": dict(built=True, engine=E2, level=EX, design="4/C08",
        technique="bounded-exhaustive enumeration of record-stream histories across key rotations (every prefix length up to 8/24 rotations, sizes 0/1/65535 around every boundary, all 70 interleavings of 4+4 records at a boundary) with a (key, nonce) uniqueness oracle on the real cipher states",
        text="After every record: reader output equals writer input, the (key, nonce) pair of both encryptions has never been used before, ciphertexts of equal plaintexts never repeat, the key changes exactly at the rotation interval, writer and reader cipher states are identical, a write refused while a record is pending leaves the cipher untouched, records of the other direction read while a record is pending do not damage it, and no 8-byte window of plaintext or auth payload is on the wire.",
        note="State observed through verif-tag accessors before and after each record; AEAD strength trusted."),
    "C15": dict(built=True, engine=E2, level=EX, design="4/C15",
        technique="bounded-exhaustive enumeration of write-size sequences x read-buffer-size sequences against a byte-stream reference model, for NoiseGrpcConn, NoiseConn and connKit",
        text="Every write sequence of length <= 3 over {0,1,2,3} x every cycled read-buffer sequence over {1,2,3,4}, plus boundary sizes around 32 KiB and 64 KiB with buffers from 1 byte to 70000, multi-record NoiseConn writes and NoiseGrpcConn writes over a transport that times out part of the way: 0<=n<=len(buf), nothing written beyond the buffer, bytes read == bytes written (no byte lost or delivered twice), oversize writes rejected or chunked, no EOF in the middle of an open stream; in histories of two connections on the same pair of NoiseGrpcConn objects (first connection closed, only its transport closed, or nothing closed) the second connection's stream is exactly what was written on it; write buffers are overwritten as soon as Write returns.",
        note="The reference model is the concatenation of accepted writes."),
    "C16": dict(built=True, engine=E2, level=FE, design="4/C16",
        technique="bounded-exhaustive enumeration of transport fragmentations (every uniform read size, every two-way and three-way cut of every handshake act and record) and of partial-write scripts (every two- and three-way partition of a record separated by timeouts) against the unfragmented run",
        text="A fragmented handshake / record (also with the last act coalesced with the next record, and with EOF reported together with the last bytes) must behave exactly like the unfragmented one; repeated Flush after partial writes must emit exactly the record once, report exactly the plaintext length in total, WriteMessage must refuse a new record while one is pending without touching the cipher, and the record written afterwards must decrypt at the peer.",
        note="Three-way cuts of acts longer than 120 bytes use field-boundary offsets and every 37th offset."),
    "C17": dict(built=True, engine=E2, level=MC, design="4/C17",
        technique="bounded-exhaustive enumeration of the mnemonic codec position-wise (every value of every word, every bit of the entropy) and of SID derivation over all ordered pairs of 8 static keys x 4 secrets; plus stateless model checking (deviation-bounded DFS under the controlled scheduler) of consecutive sessions through the real Server/Client over a fake relay, judging the stream ids every handed-out connection uses",
        text="decode(encode(e)) keeps the 110 significant bits and zeroes the rest; encode(decode(w)) = w; client and server derive the same id before and after pairing, send/receive ids cross over and differ only in the direction bit, distinct secrets give distinct ids. At the relay: in every execution of three consecutive sessions (first contact, same-rendezvous reconnects through RefreshServerConn/RefreshClientConn, the move after a version-2 pairing) with at most the listed scheduling deviations, no connection uses one stream for both directions, the two sides are mirrored, all sessions meet, and both sides move after the pairing.",
        note="The 2^110 domain is covered position-wise, not in full (the codec is a plain 11-bit-per-word bit stream). The relay part is exhaustive within the stated deviation bounds on an instrumented copy (see C05/C11)."),
    "C20": dict(built=True, engine=E2 + "+" + E1, level=MC, design="4/C20",
        technique="explicit-state breadth-first search over TimeoutManager event histories under a virtual clock (synctest), canonicalised states, invariants evaluated on every transition of the real code; plus stateless model checking (deviation-bounded DFS under the controlled scheduler) of the live connection in adaptive mode, judged on how it feeds its timeout manager",
        text="BFS to depth 7 (quick) / 9 (thorough) over Sent/Received/sleep events for 12 adaptive and 2 static configurations: the adaptive timeout never drops below 1 s, the base changes only on a response to a never-retransmitted packet (and to max(1s, multiplier x RTT)), boosts happen only on a retransmitted DATA and at most once per base interval, a fresh sample clears the boost, a static timeout never changes. Live part: in every execution within budget of adaptive bidirectional traffic (every or every second response a candidate sample, links with and without latency, drops and duplicates) a DATA packet put on the wire a second time is registered as a retransmission (the timeout is boosted in that step unless a boost within the base interval made it a no-op), the base of the timeout only moves when an ACK for a packet transmitted exactly once has arrived since the previous move, and the timeout never falls below one second.",
        note="Alphabet: sequence numbers 0,1; sleeps {150ms,400ms,1s,2.5s}. float32 boost arithmetic compared within 1 microsecond. The oracle keeps its own sample bookkeeping, independent of the implementation's."),
    "C19": dict(built=True, engine=E2, level=EX, design="4/C19",
        technique="bounded-exhaustive enumeration of codec inputs against a round-trip oracle (every value of every field; every byte string up to 3 bytes, 4 bytes by tier)",
        text="Finite input spaces enumerated completely: all packet types x all 256 values of every one-byte field x both flags x boundary payload lengths; every byte string of length <= 3 and all 4-byte strings with a valid-or-adjacent type byte (all 2^32 in the thorough tier); histories of two serialisations (every ordered pair over 26 messages): the bytes of the first still deserialise to it after the second was serialised.",
        note="Payload contents beyond the listed lengths/fill pattern are not enumerated; nil and empty payload are identified."),
}

REASON_WIP = "check not built yet in this session (planned in DESIGN.md section 4); not claimed until it runs"

ALL = ["C%02d" % i for i in range(1, 21)]


def main():
    checks, na = [], []
    for pid in ALL:
        c = CHECKS.get(pid)
        if not c or not c.get("built"):
            na.append({"property_id": pid, "reason": (c or {}).get("reason", REASON_WIP)})
            continue
        checks.append({
            "property_id": pid,
            "quick_cmd": "./verif check %s quick" % pid,
            "thorough_cmd": "./verif check %s thorough" % pid,
            "evidence_file": "/verif/evidence/%s.json" % pid,
            "replay_cmd_template": "./verif replay {path}",
            "engine": c["engine"],
            "level_claimed": {"category": c["level"], "text": c["text"], "design_ref": "DESIGN.md section " + c["design"]},
            "level_note": c["note"],
            "technique": c["technique"],
        })
    hooks_commits = subprocess.run(
        ["git", "-C", "/repo", "log", "--format=%H", "--grep=^verif hooks"], capture_output=True, text=True
    ).stdout.split()
    m = {
        "version": 1,
        "setup_cmd": "./verif setup",
        "notes": "All checks rebuild from /repo's working tree (vrewrite instruments the current sources at check time). Exit 2 = framework error, never a VIOLATION.",
        "hooks": {
            "guard": "verif",
            "enable": "go1.26 test -c -tags verif [-overlay /verif/.work/overlay/overlay.json] (GOFLAGS=-mod=mod GOPROXY=off GOSUMDB=off GOTOOLCHAIN=local)",
            "baseline_off_cmd": "for m in gbn mailbox; do (cd /repo/$m && GOFLAGS=-mod=mod go test -vet=off -count=1 -timeout 25m ./...) || exit 1; done",
            "source_commits": hooks_commits,
            "add_only": True,
        },
        "engines": [
            {"name": E1, "path": "engine/vrt engine/vrewrite engine/explore harness/gbn",
             "serves_properties": ["C01", "C06", "C07", "C09", "C10", "C12", "C13", "C14", "C18"],
             "kind_free_text": "controlled-schedule stateless model checker for the real goroutine code (AST-instrumented copy, synctest virtual time, deviation-bounded DFS, 16 worker processes)"},
            {"name": E2, "path": "harness/codec harness/noise harness/seq",
             "serves_properties": ["C02", "C03", "C04", "C07", "C08", "C15", "C16", "C17", "C19", "C20"],
             "kind_free_text": "bounded-exhaustive / explicit-state enumeration of operation sequences and inputs of the sequential components against reference models"},
            {"name": E3, "path": "harness/stack",
             "serves_properties": ["C05", "C11", "C17"],
             "kind_free_text": "the controlled scheduler applied to mailbox+gbn+Noise over a fake hashmail relay"},
        ],
        "checks": checks,
        "not_applicable": na,
    }
    path = os.path.join(ROOT, "MANIFEST.json")
    with open(path, "w") as f:
        json.dump(m, f, indent=1)
        f.write("\n")
    try:
        import jsonschema
        jsonschema.validate(m, json.load(open("/root/.vp/MANIFEST.schema.json")))
        print("MANIFEST.json valid: %d checks, %d not_applicable" % (len(checks), len(na)))
    except ImportError:
        print("MANIFEST.json written (jsonschema not available for validation)")


if __name__ == "__main__":
    main()
