#!/usr/bin/env python3
"""Regenerates /verif/MANIFEST.json from the table below and validates it."""
import json, os, subprocess, sys

ROOT = os.path.dirname(os.path.dirname(os.path.abspath(__file__)))

E1 = "gbnmc"
E2 = "seqmc"
E3 = "stackmc"

MC = "model_checking"
EX = "exploration"
FE = "fault_enumeration"

NOTE_E1 = ("Exhaustive within the stated deviation bounds of the listed scenarios, on an instrumented copy of /repo's "
           "current gbn sources (scheduling points inserted by vrewrite through a build overlay; the copy passes the "
           "package's own tests with the scheduler absent). Steps between two scheduling points are atomic (exact for "
           "race-free code). Which waiter the runtime wakes on one channel and the firing order of equal-deadline "
           "runtime timers are fixed, not enumerated. Built with go1.26.8 for testing/synctest (virtual time).")

# id -> dict(built, engine, level, technique, text, note, design)
CHECKS = {
    "C01": dict(built=True, engine=E1, level=MC, design="4/C01",
        technique="stateless model checking: deviation-bounded DFS over schedules and transport faults of the real goroutine code under a controlled scheduler (synctest bubble); plus exhaustive window arithmetic for every sequence-space size",
        text="Every execution of the uni/bidi scenarios with at most the listed numbers of scheduling deviations and transport faults (drop, in-order dup, delay) is run on the real code and the prefix oracle (Recv results are a prefix of Send-accepted payloads, byte-equal, both directions) is evaluated at every quiescent state. The window arithmetic that depends on N is enumerated for every sequence space s=2..255.",
        note=NOTE_E1),
    "C19": dict(built=True, engine=E2, level=EX, design="4/C19",
        technique="bounded-exhaustive enumeration of codec inputs against a round-trip oracle (every value of every field; every byte string up to 3 bytes, 4 bytes by tier)",
        text="Finite input spaces enumerated completely: all packet types x all 256 values of every one-byte field x both flags x boundary payload lengths; every byte string of length <= 3 and all 4-byte strings with a valid-or-adjacent type byte (all 2^32 in the thorough tier).",
        note="Payload contents beyond the listed lengths/fill pattern are not enumerated; nil and empty payload are identified."),
}

REASON_WIP = "check not built yet in this session (planned in DESIGN.md section 4); not claimed until it runs"

ALL = ["C%02d" % i for i in range(1, 21)]


def main():
    checks, na = [], []
    for pid in ALL:
        c = CHECKS.get(pid)
        if not c or not c.get("built"):
            na.append({"property_id": pid, "reason": (c or {}).get("reason", REASON_WIP)})
            continue
        checks.append({
            "property_id": pid,
            "quick_cmd": "./verif check %s quick" % pid,
            "thorough_cmd": "./verif check %s thorough" % pid,
            "evidence_file": "/verif/evidence/%s.json" % pid,
            "replay_cmd_template": "./verif replay {path}",
            "engine": c["engine"],
            "level_claimed": {"category": c["level"], "text": c["text"], "design_ref": "DESIGN.md section " + c["design"]},
            "level_note": c["note"],
            "technique": c["technique"],
        })
    hooks_commits = subprocess.run(
        ["git", "-C", "/repo", "log", "--format=%H", "--grep=^verif hooks"], capture_output=True, text=True
    ).stdout.split()
    m = {
        "version": 1,
        "setup_cmd": "./verif setup",
        "notes": "All checks rebuild from /repo's working tree (vrewrite instruments the current sources at check time). Exit 2 = framework error, never a VIOLATION.",
        "hooks": {
            "guard": "verif",
            "enable": "go1.26 test -c -tags verif [-overlay /verif/.work/overlay/overlay.json] (GOFLAGS=-mod=mod GOPROXY=off GOSUMDB=off GOTOOLCHAIN=local)",
            "baseline_off_cmd": "for m in gbn mailbox; do (cd /repo/$m && GOFLAGS=-mod=mod go test -vet=off -count=1 -timeout 25m ./...) || exit 1; done",
            "source_commits": hooks_commits,
            "add_only": True,
        },
        "engines": [
            {"name": E1, "path": "engine/vrt engine/vrewrite engine/explore harness/gbn",
             "serves_properties": ["C01", "C06", "C07", "C09", "C10", "C12", "C13", "C14", "C18"],
             "kind_free_text": "controlled-schedule stateless model checker for the real goroutine code (AST-instrumented copy, synctest virtual time, deviation-bounded DFS, 16 worker processes)"},
            {"name": E2, "path": "harness/codec harness/noise harness/seq",
             "serves_properties": ["C02", "C03", "C04", "C07", "C08", "C15", "C16", "C17", "C19", "C20"],
             "kind_free_text": "bounded-exhaustive / explicit-state enumeration of operation sequences and inputs of the sequential components against reference models"},
            {"name": E3, "path": "harness/stack",
             "serves_properties": ["C05", "C11", "C17"],
             "kind_free_text": "the controlled scheduler applied to mailbox+gbn+Noise over a fake hashmail relay"},
        ],
        "checks": checks,
        "not_applicable": na,
    }
    path = os.path.join(ROOT, "MANIFEST.json")
    with open(path, "w") as f:
        json.dump(m, f, indent=1)
        f.write("\n")
    try:
        import jsonschema
        jsonschema.validate(m, json.load(open("/root/.vp/MANIFEST.schema.json")))
        print("MANIFEST.json valid: %d checks, %d not_applicable" % (len(checks), len(na)))
    except ImportError:
        print("MANIFEST.json written (jsonschema not available for validation)")


if __name__ == "__main__":
    main()
